"""C14 - ray-box and line-box intersection are geometrically exact (engine C: exact reals, one case per sign pattern of dir)."""
import itertools
from fractions import Fraction
from vf.engc import EngC
from props.symutil import *

B = 2 ** 20
BOUNDS = 'box corners and origin in [-2^20, 2^20]; each direction component 0 or 2^-20 <= |d| <= 2^20 (inside this range the overflow guards provably divide); boxes may be empty or flat'


def asb(rv):
    """return value (i1) as python bool or z3 Bool"""
    if isinstance(rv, int): return bool(rv & 1)
    return rv


def pt(pos, d, t): return [radd(pos[i], rmul(t, d[i])) for i in range(3)]
def inbox(p, b): return AND(*[AND(le(b[i], p[i]), le(p[i], b[3 + i])) for i in range(3)])
def onsurface(p, b): return AND(inbox(p, b), OR(*[OR(eq(p[i], b[i]), eq(p[i], b[3 + i])) for i in range(3)]))


def mkpre(signs):
    def pre(I):
        cs = []
        for v in list(I['b']) + list(I['l'][:3]):
            if not R(v).conc(): cs.append(AND(v.n >= -B, v.n <= B))
            elif abs(v.frac()) > B: cs.append(False)
        for k, sg in enumerate(signs):
            v = I['l'][3 + k]
            if sg == 0: continue
            lo, hi = (Fraction(1, B), B) if sg > 0 else (-B, Fraction(-1, B))
            if not R(v).conc(): cs.append(AND(v.n >= lo, v.n <= hi))
            elif not (lo <= v.frac() <= hi): cs.append(False)
        return cs
    return pre


def sample_for(signs):
    def f(rng, inp):
        l = list(inp['l'])
        for k, sg in enumerate(signs):
            if sg != 0: l[3 + k] = abs(l[3 + k]) * sg if l[3 + k] != 0 else Fraction(sg)
        inp['l'] = l
        return inp
    return f


def ray_claim(with_ip):
    def c(I, O, X):
        b = I['b']; pos = I['l'][:3]; d = I['l'][3:]
        hit = asb(O['ret'])
        t = X.free('t')
        cl = [('miss => no t >= 0 with pos + t*dir in the box', IMPLIES(NOT(hit), NOT(AND(le(rz(0), t), inbox(pt(pos, d, t), b)))))]
        # hit => there IS such a point: witnessed by ip when available, else stated through the ip form (same code path)
        if with_ip:
            ip = O['ip']; diff = [rsub(ip[i], pos[i]) for i in range(3)]; cr = cross3(diff, d)
            cl += [('hit => ip in the box', IMPLIES(hit, inbox(ip, b))),
                   ('hit => ip on the ray (parallel, forward)', IMPLIES(hit, AND(*[eq(cr[i], rz(0)) for i in range(3)] + [le(rz(0), rdot(diff, d))]))),
                   ('hit and origin inside => ip == origin', IMPLIES(AND(hit, inbox(pos, b)), AND(*[eq(ip[i], pos[i]) for i in range(3)]))),
                   ('hit and origin outside => ip on the surface', IMPLIES(AND(hit, NOT(inbox(pos, b))), onsurface(ip, b))),
                   ('hit => no box point of the ray strictly before ip', IMPLIES(hit, NOT(AND(le(rz(0), t), inbox(pt(pos, d, t), b), lt(rdot([rsub(pt(pos, d, t)[i], ip[i]) for i in range(3)], d), rz(0))))))]
        return cl
    return c


def entry_claim(I, O, X):
    b = I['b']; pos = I['l'][:3]; d = I['l'][3:]
    hit = asb(O['ret']); t = X.free('t')
    en = O['en']; ex = O['ex']
    def online(p):
        diff = [rsub(p[i], pos[i]) for i in range(3)]; cr = cross3(diff, d)
        return AND(*[eq(cr[i], rz(0)) for i in range(3)])
    P = pt(pos, d, t)
    return [('miss => no real t with pos + t*dir in the box', IMPLIES(NOT(hit), NOT(inbox(P, b)))),
            ('hit => entry and exit in the box', IMPLIES(hit, AND(inbox(en, b), inbox(ex, b)))),
            ('hit => entry and exit on the line', IMPLIES(hit, AND(online(en), online(ex)))),
            ('hit => exit not before entry along dir', IMPLIES(hit, le(rz(0), rdot([rsub(ex[i], en[i]) for i in range(3)], d)))),
            ('hit => no box point of the line before entry', IMPLIES(hit, NOT(AND(inbox(P, b), lt(rdot([rsub(P[i], en[i]) for i in range(3)], d), rz(0)))))),
            ('hit => no box point of the line after exit', IMPLIES(hit, NOT(AND(inbox(P, b), lt(rz(0), rdot([rsub(P[i], ex[i]) for i in range(3)], d))))))]


TINY = Fraction(1, 2 ** 100); MARGIN = Fraction(1, 2 ** 40)


def tiny_cases(T, full):
    """one direction component is non-zero but so small that the overflow guard |d| < TMAX*|dir| can fail (the code then treats
    the ray as parallel to that slab).  Exact geometry is relaxed by a margin on THAT axis only: the other two components are
    normal, so the ray parameter inside the box is at most 2^41 and the tiny component moves the point by < 2^-59."""
    cs = []
    others = list(itertools.product((-1, 1), repeat=2)) if full else [(1, 1), (-1, 1)]
    for k in range(3):
        for sg in (-1, 1):
            for oth in others:
                signs = list(oth); signs.insert(k, 0)
                tag = ''.join(('t' if sg < 0 else 'T') if i == k else '-+'[(signs[i] + 1) // 2] for i in range(3))
                def pre(I, k=k, sg=sg, signs=tuple(signs)):
                    cs_ = mkpre(signs)(I)
                    v = I['l'][3 + k]
                    lo, hi = (Fraction(0), TINY) if sg > 0 else (-TINY, Fraction(0))
                    if not R(v).conc(): cs_ += [AND(v.n >= lo, v.n <= hi), v.n != 0]
                    elif not (lo <= v.frac() <= hi and v.frac() != 0): cs_.append(False)
                    return cs_
                def smp(rng, inp, k=k, sg=sg, signs=tuple(signs)):
                    inp = sample_for(signs)(rng, inp); l = list(inp['l']); l[3 + k] = sg * Fraction(1, 2 ** 110); inp['l'] = l; return inp
                def shrunk(p, b, k=k):
                    return AND(*[AND(le(radd(b[i], rz(MARGIN)), p[i]), le(p[i], rsub(b[3 + i], rz(MARGIN)))) if i == k else AND(le(b[i], p[i]), le(p[i], b[3 + i])) for i in range(3)])
                def ray(I, O, X, shrunk=shrunk):
                    b = I['b']; pos = I['l'][:3]; d = I['l'][3:]; hit = asb(O['ret']); t = X.free('t'); ip = O['ip']
                    return [('miss => no t >= 0 puts the point inside the box (margin 2^-40 on the tiny axis)', IMPLIES(NOT(hit), NOT(AND(le(rz(0), t), shrunk(pt(pos, d, t), b))))),
                            ('hit => ip in the box', IMPLIES(hit, inbox(ip, b)))]
                def ee(I, O, X, shrunk=shrunk):
                    b = I['b']; pos = I['l'][:3]; d = I['l'][3:]; hit = asb(O['ret']); t = X.free('t')
                    return [('miss => no real t puts the point inside the box (margin 2^-40 on the tiny axis)', IMPLIES(NOT(hit), NOT(shrunk(pt(pos, d, t), b)))),
                            ('hit => entry and exit in the box', IMPLIES(hit, AND(inbox(O['en'], b), inbox(O['ex'], b))))]
                kw = dict(pre=pre, T=T, sample=smp, max_paths=3000, budget=280, timeout_ms=20000, nvalid=2,
                          bounds=BOUNDS + '; direction component %d in (0, 2^-100] resp. [-2^-100, 0): the guarded division may be skipped' % k)
                cs.append(Case('O3.tiny_component.intersects_ip.dir%s.%s' % (tag, T), 'w_raybox_ip{T}', [In('b', 6), In('l', 6), Out('ip', 3)], ray,
                               desc='intersects(box, ray, ip) with a denormal-like direction component (%s): a skipped (guarded) division never turns a robust hit into a miss; reported point in the box' % tag, **kw))
                cs.append(Case('O3.tiny_component.findEntryAndExitPoints.dir%s.%s' % (tag, T), 'w_entryexit{T}', [In('l', 6), In('b', 6), Out('en', 3), Out('ex', 3)], ee,
                               desc='findEntryAndExitPoints with a denormal-like direction component (%s): the parallel-slab fallback agrees with geometry up to the margin' % tag, **kw))
                # origin exactly ON the entry face of the tiny axis (a ray skimming along the face): the front-face quotient is 0/dir == 0 and must
                # not be replaced by TMAX because of the FAR face's distance; geometry is exact here (no margin), provided the slab is not thinner than 2^-40
                def pre_face(I, k=k, sg=sg, pre=pre):
                    b = I['b']; pos = I['l'][:3]
                    return pre(I) + [eq(pos[k], b[3 + k] if sg < 0 else b[k]), le(rz(MARGIN), rsub(b[3 + k], b[k]))]
                def ray_face(I, O, X):
                    b = I['b']; pos = I['l'][:3]; d = I['l'][3:]; hit = asb(O['ret']); t = X.free('t'); ip = O['ip']
                    return [('miss => no t >= 0 puts the point inside the box (exact)', IMPLIES(NOT(hit), NOT(AND(le(rz(0), t), inbox(pt(pos, d, t), b))))),
                            ('hit => ip in the box', IMPLIES(hit, inbox(ip, b)))]
                if oth == others[0]:
                    kwf = dict(kw); kwf['pre'] = pre_face; kwf['nvalid'] = 0
                    kwf['bounds'] = BOUNDS + '; direction component %d in (0, 2^-100] resp. [-2^-100, 0), ray origin exactly on the entry face of that axis, slab at least 2^-40 thick' % k
                    cs.append(Case('O3.tiny_component_on_face.intersects_ip.dir%s.%s' % (tag, T), 'w_raybox_ip{T}', [In('b', 6), In('l', 6), Out('ip', 3)], ray_face,
                                   desc='intersects(box, ray, ip), origin on the entry face of an axis whose direction component is denormal-like (%s): the overflow guard of the FRONT-face quotient looks at the front-face distance, so a skimming hit is never reported as a miss' % tag, **kwf))
    return cs


def cases(T):
    cs = []
    for signs in itertools.product((-1, 0, 1), repeat=3):
        tag = ''.join('-0+'[s + 1] for s in signs)
        fx = {3 + k: 0 for k, sg in enumerate(signs) if sg == 0}
        kw = dict(pre=mkpre(signs), T=T, bounds=BOUNDS, sample=sample_for(signs), max_paths=1500, budget=240, timeout_ms=20000, nvalid=3)
        cs.append(Case('O1.intersects_ip.dir%s.%s' % (tag, T), 'w_raybox_ip{T}', [In('b', 6), In('l', 6, fixed=fx), Out('ip', 3)], ray_claim(True),
                       desc='intersects(box, ray, ip): miss <=> no t>=0 in box; ip in box, on the ray, == origin if inside else first contact on the surface; dir signs ' + tag, **kw))
        cs.append(Case('O1.intersects.dir%s.%s' % (tag, T), 'w_raybox{T}', [In('b', 6), In('l', 6, fixed=fx)], ray_claim(False),
                       desc='intersects(box, ray): false => no t>=0 with the point in the closed box; dir signs ' + tag, **kw))
        if signs == (0, 0, 0): continue   # a zero direction is not a line (see DESIGN: observation on degenerate Line3)
        cs.append(Case('O2.findEntryAndExitPoints.dir%s.%s' % (tag, T), 'w_entryexit{T}', [In('l', 6, fixed=fx), In('b', 6), Out('en', 3), Out('ex', 3)], entry_claim,
                       desc='findEntryAndExitPoints: miss <=> line misses box; entry/exit in box, on the line, ordered, extreme; dir signs ' + tag, **kw))
    return cs


def build(chk):
    e = EngC(chk, 'boxalgo')
    for T in ('d', 'f'):
        for c in cases(T) + tiny_cases(T, chk.tier == 'thorough'):
            if T == 'f': c.tier = 'thorough'      # same IR structure as double; float instantiation in the thorough tier
            e.add(c)
    chk.assumptions += ['truth of "hit" for intersects(box,ray) (2-arg form) is tied to the 3-arg form by O3 (same verdict), whose ip witnesses the hit',
                        'exact-real semantics: TMAX = numeric_limits<T>::max() keeps its exact value; inside the stated ranges the guard |d| < TMAX*dir holds']
    chk.outside += ['findEntryAndExitPoints with a zero direction vector (degenerate Line3(p,p)): returns true for an origin inside the box without writing entry/exit - observed, outside the property (not a line)',
                    'IEEE overflow behaviour of the guarded divisions for denormal/huge direction components (separate exact-FP kernel, not yet built)',
                    'points "on the ray to within rounding"']
