"""C06 - matrix inversion returns a true inverse, or a clean singular outcome."""
from fractions import Fraction
from vf.engc import EngC
from vf.engb import EngB
from props.symutil import *

B20 = 2 ** 20
BOX = 'all real matrices with |m_ij| <= 2^20 and |det| >= 2^-20 (inside this box the overflow guard mr > |s| provably divides)'


def pre_box(n, detbound=True, singular=False, affine=False):
    def pre(I):
        a = I['a']; A = M(a, n)
        cs = [AND(R(v).n >= -B20, R(v).n <= B20) if not R(v).conc() else (abs(R(v).frac()) <= B20) for v in a]
        d = det(A)
        if singular: cs.append(eq(d, rz(0)))
        elif detbound: cs.append(OR(le(rz(Fraction(1, B20)), d), le(d, rz(Fraction(-1, B20)))))
        return cs
    return pre


def zabsr(x):
    """|x| of a Rat with constant positive denominator"""
    from vf.irsym import zabs
    x = R(x); return Rat(zabs(x.n), zabs(x.d))


def strict(n, fam, T, side='both'):
    """every path: true inverse, OR exactly the identity together with the documented reason:
    determinant-based forms: |det| <= min * |cofactor| for some cofactor (dividing would overflow; includes det == 0);
    Gauss-Jordan: det == 0 (zero pivot)"""
    tmin = Fraction(1, 2 ** 126) if T == 'f' else Fraction(1, 2 ** 1022)
    def c(I, O, X):
        A = M(I['a'], n); Xm = M(O['r'], n)
        inv = AND(allof(meq(mm(A, Xm), ident(n))), allof(meq(mm(Xm, A), ident(n))))
        d = det(A)
        if fam == 'inv':
            cof = [minor(A, i, j) for i in range(n)for j in range(n)] if n > 1 else []
            small = OR(*[le(zabsr(d), rmul(rz(tmin), zabsr(cf))) for cf in cof])
        else:
            small = eq(d, rz(0))
        reason = AND(allof(meq(Xm, ident(n))), small)
        # slicing: a path whose outputs are the literal identity constants is the singular exit -> only the reason is
        # owed; any other path owes the inverse, one query per entry (one big disjunction is not decided by nlsat)
        literal_identity = all(R(x).conc() for x in O['r']) and not X.conc
        if literal_identity:
            return [('identity returned only for the documented singular reason', ('anyof', small, OR(reason, inv))), ('no exception', O['exc'] == 0)]
        if X.conc:
            return [('true inverse, or identity because singular', OR(inv, reason)), ('no exception', O['exc'] == 0)]
        return (meq(mm(A, Xm), ident(n), 'M*X') if side != 'left' else []) + (meq(mm(Xm, A), ident(n), 'X*M') if side != 'right' else []) + [('no exception', O['exc'] == 0)]
    return c


def loose(n):
    def c(I, O, X):
        A = M(I['a'], n); Xm = M(O['r'], n)
        inv = AND(allof(meq(mm(A, Xm), ident(n))))
        return [('true inverse or identity', OR(inv, allof(meq(Xm, ident(n)))))]
    return c


def singular_identity(n):
    def c(I, O, X):
        return meq(M(O['r'], n), ident(n), 'X') + [('no exception', O['exc'] == 0)]
    return c


def singular_throws(n):
    def c(I, O, X):
        return [('throws invalid_argument', O['exc'] == 2)]
    return c


def affine_fixed(n):
    # last column (0,..,0,1)
    return {n * i + (n - 1): (1 if i == n - 1 else 0) for i in range(n)}


def cases(T, tier):
    cs = []
    def add(name, func, args, claim, **kw):
        cs.append(Case('%s.%s' % (name, T), func, args, claim, T=T, **kw))
    for n, nn in ((2, '22'), (3, '33'), (4, '44')):
        for fam in (['inv'] + (['gjinv'] if n > 2 else [])):
            heavy = (n == 4)
            fixeds = [('', None)] if not heavy else []
            if n >= 3 and fam == 'inv': fixeds.append(('.affine', affine_fixed(n)))
            if heavy and fam == 'inv': pass
            if heavy: fixeds.append(('.general', None))
            for tag, fx in fixeds:
                thorough = heavy and fx is None
                kw = dict(tier='thorough' if thorough else 'quick', core=not thorough, budget=900 if thorough else 200, max_paths=400,
                          timeout_ms=120000 if thorough else 20000)
                A = [In('a', n * n, fixed=fx), Out('r', n * n)]
                gen33 = (n == 3 and fam == 'inv' and fx is None)
                def pre1(I, n=n, gen33=gen33):
                    cs = pre_box(n, detbound=False)(I)
                    if gen33:   # the affine sub-branch (last column exactly (0,0,1)) is the separate .affine case
                        a = I['a']; cs.append(NOT(AND(eq(a[2], rz(0)), eq(a[5], rz(0)), eq(a[8], rz(1)))))
                    return cs
                sides = [('', 'both', {})] if fam == 'inv' else [('', 'right', {}), ('.left_inverse', 'left', dict(core=False, tier='thorough', budget=900))]
                for stag, side, over in sides:
                    kk = dict(kw); kk.update(over)
                    add('O1.%s%s%s.true_inverse%s' % (fam, nn, tag, stag), 'w_%s%s{T}' % (fam, nn), A, strict(n, fam, T, side), pre=pre1, bounds='all real matrices with |m_ij| <= 2^20',
                        desc='%s(): on every path %s, or X == I with the documented singular reason (|det| <= min*|cofactor| resp. zero pivot)' % (fam, {'both': 'M*X == I and X*M == I', 'right': 'M*X == I', 'left': 'X*M == I'}[side]), **kk)
                add('O2.%s%s%s.singular_identity' % (fam, nn, tag), 'w_%s%s{T}' % (fam, nn), A, singular_identity(n), pre=pre_box(n, singular=True),
                    bounds='all real matrices with |m_ij| <= 2^20 and det == 0', desc='%s() of an exactly singular matrix returns the identity' % fam, nvalid=0, **kw)
                add('O2.%sb%s%s.singular_throws' % (fam, nn, tag), 'w_%sb%s{T}' % (fam, nn), A + [Int(1)], singular_throws(n), pre=pre_box(n, singular=True),
                    bounds='all real matrices with |m_ij| <= 2^20 and det == 0', desc='%s(true) of an exactly singular matrix throws std::invalid_argument' % fam, nvalid=0, **kw)
                add('O5.%s%s%s.inverse_or_identity' % (fam, nn, tag), 'w_%s%s{T}' % (fam, nn), A, loose(n), pre=pre_box(n, detbound=False),
                    bounds='all real matrices with |m_ij| <= 2^20 (no determinant bound)', desc='%s(): every path returns a true inverse or exactly the identity (nothing else)' % fam, **kw)
    # ---- 4x4: every copy (value/in-place, with and without the singExc flag, cofactor and Gauss-Jordan) on pinned families: the identity
    # except for an arbitrary last column / last row and column / one off-diagonal pair.  Cheap (few symbolic entries), and it exercises
    # the routing test "is the last column (0,0,0,1)?" of each copy, which the all-symbolic thorough-tier cases are too slow to reach.
    def fam_claim(kind):
        tmin = Fraction(1, 2 ** 126) if T == 'f' else Fraction(1, 2 ** 1022)
        def c(I, O, X):
            A = M(I['a'], 4); Xm = M(O['r'], 4); d = det(A)
            inv = AND(allof(meq(mm(A, Xm), ident(4))), allof(meq(mm(Xm, A), ident(4))))
            if kind == 'gj': small = eq(d, rz(0))
            else: small = OR(eq(d, rz(0)), *[le(zabsr(d), rmul(rz(tmin), zabsr(minor(A, i, j)))) for i in range(4) for j in range(4)])
            return [('true inverse, or the identity for the documented singular reason (zero pivot resp. |det| <= min*|cofactor|)', OR(inv, AND(allof(meq(Xm, ident(4))), small))), ('no exception', O['exc'] == 0)]
        return c
    FAMS = [('last_column', [3, 7, 11, 15]), ('last_row_and_column', [3, 7, 11, 12, 13, 14, 15])]
    for fname, sym_ in FAMS:
        fx = {i: (1 if i % 5 == 0 else 0) for i in range(16) if i not in sym_}
        for wname, extra in (('inv44', []), ('invb44', [Int(0)]), ('invert44', []), ('invertb44', [Int(0)]), ('gjinv44', []), ('gjinvb44', [Int(0)]), ('gjinvert44', []), ('gjinvertb44', [Int(0)])):
            add('O6.%s.%s' % (wname, fname), 'w_%s{T}' % wname, [In('a', 16, fixed=fx), Out('r', 16)] + extra, fam_claim('gj' if wname.startswith('gj') else 'inv'), tier=('thorough' if (T == 'f' or fname != 'last_column') else 'quick'), core=(fname == 'last_column'),
                pre=lambda I: [AND(R(v).n >= -64, R(v).n <= 64) for v in I['a'] if not R(v).conc()], budget=200, timeout_ms=20000, max_paths=600, nvalid=3,
                bounds='4x4 matrices equal to the identity except for an arbitrary %s (entries in [-64,64])' % fname.replace('_', ' '),
                desc='Matrix44 %s on the family "identity with an arbitrary %s": a true two-sided inverse, or the identity exactly when the matrix is singular' % (wname.replace('b44', '44(false)').replace('44', ''), fname.replace('_', ' ')))
    return cs


def build(chk):
    e = EngC(chk, 'inverse')
    for T in ('d', 'f'):
        for c in cases(T, chk.tier):
            e.add(c)
    chk.assumptions += ['engine C: exact real semantics; numeric_limits<T>::min() keeps its exact rational value so the overflow guard is present and provably not taken inside the box',
                        'affine cases pin the last column to (0,..,0,1) so the fast-path test is concrete; the general 4x4 path (gjInverse with partial pivoting) is thorough-tier and budgeted']
    chk.outside += ['cond(M)*eps accuracy bound; no-jump under a one-ulp perturbation of the last column (rounding)']
