"""C16 - frustum projection, depth mapping, planes and culling are mutually consistent (engine C)."""
from fractions import Fraction
from vf.engc import EngC
from vf.layout import Layout
from vf.ll2c import PtrTy
from props.symutil import *
from props.c14 import asb
from props.c15 import vsub, vadd, vscale, unit, along
from props import contracts

B = 2 ** 10
BOUNDS = 'near, far-near, right-left, top-bottom >= 2^-10; all window parameters in [-2^10, 2^10]; perspective frusta have near >= 2^-10'


def frustum_raw(e, T, ortho, name='f'):
    """Raw argument describing a Frustum<T> object (vptr, six planes, bool) from the IR's own layout"""
    f = e.m.funcs['@w_fr_proj' + T]
    ty = f.params[0][0].to
    L = Layout(e.m); rt = L.res(ty)
    offs = [L.fieldoff(rt, i) for i in range(len(rt.fields))]
    # fields: vptr, near, far, left, right, top, bottom, ortho
    names = ['near', 'far', 'left', 'right', 'top', 'bottom']
    fields = [(offs[0], 'p', None)] + [(offs[1 + i], 'r', '%s_%s' % (name, names[i])) for i in range(6)] + [(offs[7], 'i', (1 if ortho else 0, 1))]
    return Raw(name, L.sizeof(rt), fields)


def fr(I, name='f'):
    return [I['%s_%s' % (name, k)] for k in ('near', 'far', 'left', 'right', 'top', 'bottom')]


def fpre(ortho, name='f'):
    def pre(I):
        n, f, l, r, t, b = fr(I, name)
        e = Fraction(1, B)
        cs = []
        def rng(v, lo, hi):
            v = R(v)
            return AND(v.n >= lo, v.n <= hi) if not v.conc() else (lo <= v.frac() <= hi)
        cs += [rng(x, -B, B) for x in (n, f, l, r, t, b)]
        cs += [le(radd(n, rz(e)), f), le(radd(l, rz(e)), r), le(radd(b, rz(e)), t)]
        if not ortho: cs.append(le(rz(e), n))
        return cs
    return pre


def fsample(rng, inp, name='f'):
    n = Fraction(rng.randint(1, 16), 8); inp['%s_near' % name] = [n]; inp['%s_far' % name] = [n + Fraction(rng.randint(1, 64), 8)]
    l = Fraction(rng.randint(-16, 8), 8); inp['%s_left' % name] = [l]; inp['%s_right' % name] = [l + Fraction(rng.randint(1, 32), 8)]
    b = Fraction(rng.randint(-16, 8), 8); inp['%s_bottom' % name] = [b]; inp['%s_top' % name] = [b + Fraction(rng.randint(1, 32), 8)]
    return inp


def corners(I, ortho):
    n, f, l, r, t, b = fr(I)
    out = []
    for x, sx in ((l, -1), (r, 1)):
        for y, sy in ((b, -1), (t, 1)):
            out.append(([x, y, rneg(n)], (sx, sy, -1)))
            s = rz(1) if ortho else rdiv(f, n)
            out.append(([rmul(x, s), rmul(y, s), rneg(f)], (sx, sy, 1)))
    return out


def cases(e, T):
    cs = []
    def add(name, func, args, claim, ortho, **kw):
        kw.setdefault('bounds', BOUNDS)
        kw.setdefault('pre', fpre(ortho))
        kw.setdefault('sample', fsample)
        kw.setdefault('setup', lambda sym: contracts.install(sym, sym.m))
        cs.append(Case('%s.%s.%s' % (name, 'ortho' if ortho else 'persp', T), func, args, claim, T=T, **kw))
    for ortho in (False, True):
        F = frustum_raw(e, T, ortho)
        def proj(I, O, X, ortho=ortho):
            Mx = M(O['m'], 4); cl = []
            for k, (p, ndc) in enumerate(corners(I, ortho)):
                h = vm(p + [rz(1)], Mx)
                for i in range(3):
                    cl.append(('corner %d -> ndc[%d] == %d' % (k, i, ndc[i]), eq(h[i], rmul(rz(ndc[i]), h[3]))))
                cl.append(('corner %d: w != 0' % k, ne(h[3], rz(0))))
            return cl
        add('O1.projectionMatrix_corners', 'w_fr_proj{T}', [F, Out('m', 16)], proj, ortho, desc='projectionMatrix maps the eight frustum corners to the corners of [-1,1]^3 (after the homogeneous divide)')
        def p2s(I, O, X, ortho=ortho):
            n, f, l, r, t, b = fr(I); p = I['p']
            # textbook projection matrix of this frustum (same documented layout), applied to p
            if ortho:
                x = rdiv(rsub(rmul(rz(2), p[0]), radd(r, l)), rsub(r, l)); y = rdiv(rsub(rmul(rz(2), p[1]), radd(t, b)), rsub(t, b))
            else:
                # x_ndc = (2n x + (r+l) z) / ((r-l) * (-z))
                x = rdiv(radd(rmul(rmul(rz(2), n), p[0]), rmul(radd(r, l), p[2])), rmul(rsub(r, l), rneg(p[2])))
                y = rdiv(radd(rmul(rmul(rz(2), n), p[1]), rmul(radd(t, b), p[2])), rmul(rsub(t, b), rneg(p[2])))
            return [('screen x == (p*projectionMatrix).x / w', eq(O['s'][0], x)), ('screen y == (p*projectionMatrix).y / w', eq(O['s'][1], y))]
        add('O2.projectPointToScreen', 'w_fr_point_to_screen{T}', [F, In('p', 3), Out('s', 2)], p2s, ortho,
            pre=(lambda ortho: lambda I: fpre(ortho)(I) + [ne(I['p'][2], rz(0))] + [AND(R(v).n >= -B, R(v).n <= B) if not R(v).conc() else True for v in I['p']])(ortho),
            desc='projectPointToScreen(p) == x,y of p * projectionMatrix after the divide (p.z != 0)')
        def rt(I, O, X):
            return veq(O['r'], I['s'], 'screen')
        add('O3.projectScreenToRay_roundtrip', 'w_fr_ray_roundtrip{T}', [F, In('s', 2), Val('t'), Out('r', 2)], rt, ortho,
            pre=(lambda ortho: lambda I: fpre(ortho)(I) + [le(rz(Fraction(1, B)), I['t']), le(I['t'], rz(B))] + [AND(R(v).n >= -B, R(v).n <= B) if not R(v).conc() else True for v in I['s']])(ortho),
            sample=lambda rng, inp: (fsample(rng, inp), inp.__setitem__('t', [Fraction(rng.randint(1, 40), 8)]), inp)[2],
            desc='every point ray(t), t>0, of projectScreenToRay(s) projects back to s', budget=240)
        def nz(I, O, X, ortho=ortho):
            n, f, l, r, t, b = fr(I); z = O['ret']; zv = I['z']
            zp = rsub(rmul(zv, rz(2)), rz(1))
            # depth z maps through the projection matrix to z_ndc: ortho: (-2 z - (f+n))/(f-n); persp: (-(f+n) z - 2fn)/((f-n)(-z))
            if ortho: ndc = rdiv(rsub(rmul(rz(-2), z), radd(f, n)), rsub(f, n))
            else: ndc = rdiv(rsub(rmul(rneg(radd(f, n)), z), rmul(rz(2), rmul(f, n))), rmul(rsub(f, n), rneg(z)))
            return [('matrix depth of the returned z == 2*zval - 1', eq(ndc, zp))]
        add('O4.normalizedZToDepth_agrees_with_matrix', 'w_fr_nz_to_depth{T}', [F, Val('z')], nz, ortho,
            pre=(lambda ortho: lambda I: fpre(ortho)(I) + [le(rz(0), I['z']), le(I['z'], rz(1))])(ortho),
            sample=lambda rng, inp: (fsample(rng, inp), inp.__setitem__('z', [Fraction(rng.randint(0, 8), 8)]), inp)[2],
            desc='normalizedZToDepth(zval) returns the depth whose projection-matrix z is 2*zval-1 (zval in [0,1])')
        add('O6.aspect', 'w_fr_aspect{T}', [F], lambda I, O, X: (lambda n, f, l, r, t, b: eq(O['ret'], rdiv(rsub(r, l), rsub(t, b))))(*fr(I)), ortho, desc='aspect() == (right-left)/(top-bottom)')
        def planes(I, O, X, ortho=ortho):
            P = [O['p'][4 * k:4 * k + 4] for k in range(6)]; cl = []
            cn = [p for p, _ in corners(I, ortho)]
            # which corners lie on which plane: order top,right,bottom,left,near,far ; corner ndc signs (sx,sy,sz)
            on = {0: lambda s: s[1] == 1, 1: lambda s: s[0] == 1, 2: lambda s: s[1] == -1, 3: lambda s: s[0] == -1, 4: lambda s: s[2] == -1, 5: lambda s: s[2] == 1}
            sg = [s for _, s in corners(I, ortho)]
            for k in range(6):
                nrm, d = P[k][:3], P[k][3]
                cl.append(('plane %d: unit normal' % k, unit(nrm)))
                cl.append(('plane %d: all 8 corners on the non-positive side' % k, AND(*[le(rdot(nrm, c), d) for c in cn])))
                cl.append(('plane %d: its own 4 corners lie on it (documented order top,right,bottom,left,near,far)' % k, AND(*[eq(rdot(nrm, c), d) for c, s in zip(cn, sg) if on[k](s)])))
            return cl
        add('O7.planes', 'w_fr_planes{T}', [F, Out('p', 24)], planes, ortho, budget=280, timeout_ms=30000,
            desc='planes(): six outward unit normals in the order top,right,bottom,left,near,far; every corner on the non-positive side, each plane through its own four corners')
    # perspective only
    F = frustum_raw(e, T, False)
    add('O5.screenRadius_worldRadius_inverse', 'w_fr_radius_roundtrip{T}', [F, In('p', 3), Val('r')], lambda I, O, X: eq(O['ret'], I['r']), False,
        pre=lambda I: fpre(False)(I) + [ne(I['p'][2], rz(0))], desc='worldRadius(p, screenRadius(p, r)) == r (p.z != 0)')
    def vis(I, O, X):
        n, f, l, r, t, b = fr(I); p = I['p']; v = asb(O['ret'])
        z = rneg(p[2])     # distance in front of the eye
        inside = AND(lt(n, z), lt(z, f), lt(rmul(l, z), rmul(p[0], n)), lt(rmul(p[0], n), rmul(r, z)), lt(rmul(b, z), rmul(p[1], n)), lt(rmul(p[1], n), rmul(t, z)))
        return [('visible => strictly inside', IMPLIES(v, inside)), ('strictly inside => visible', IMPLIES(inside, v))]
    ident = {i: (1 if i % 5 == 0 else 0) for i in range(16)}
    add('O8.FrustumTest_isVisible_point', 'w_ft_visible_point{T}', [F, In('cam', 16, fixed=ident), In('p', 3)], vis, False, budget=900, timeout_ms=60000, core=False, tier='thorough',
        desc='FrustumTest::isVisible(point) <=> the point is strictly inside the frustum (identity camera, perspective)')
    return cs


def build(chk):
    e = EngC(chk, 'frustum', keep_calls=[contracts.LENGTH_RE])
    for T in ('d', 'f'):
        for c in cases(e, T):
            if T == 'f' and chk.tier != 'thorough' and c.budget > 150: continue
            e.add(c)
    chk.assumptions += ['Frustum objects are built directly as memory state from the IR layout (vptr opaque, six plane parameters symbolic, projection kind concrete)',
                        'Vec3::length() replaced by its contract (C08)', 'non-degenerate frusta only: see bounds']
    chk.outside += ['ZToDepth / DepthToZ (long casts of symbolic reals are not encodable in engine C)', 'fovx/fovy/set(fov,aspect) (atan2/tan)', 'planes(p, M) for a general camera matrix and FrustumTest box/sphere culling: not yet attempted',
                    'window(), modifyNearAndFar(): not yet attempted']
