"""C16 - frustum projection, depth mapping, planes and culling are mutually consistent (engine C)."""
from fractions import Fraction
from vf.engc import EngC
from vf.layout import Layout
from vf.ll2c import PtrTy
from props.symutil import *
from props.c14 import asb
from props.c15 import vsub, vadd, vscale, unit, along
from props import contracts

B = 2 ** 10
BOUNDS = 'near, far-near, right-left, top-bottom >= 2^-10; all window parameters in [-2^10, 2^10]; perspective frusta have near >= 2^-10'


F_ = Fraction


def boxed(vs, Bd):
    out = []
    for v in vs:
        v = R(v)
        if not v.conc(): out.append(AND(v.n >= -Bd, v.n <= Bd))
        elif abs(v.frac()) > Bd: out.append(False)
    return out


CAMERAS = [('identity_translated', [[1, 0, 0], [0, 1, 0], [0, 0, 1]], [1, -2, 3]),
           ('yaw90', [[0, 0, -1], [0, 1, 0], [1, 0, 0]], [0, 0, 0]),
           ('roll90', [[0, 1, 0], [-1, 0, 0], [0, 0, 1]], [2, 0, -1]),
           # yaw by atan(3/4) then roll by atan(5/12): rational rotation with no zero entry pattern to hide behind
           ('yaw_roll_rational', None, [1, 1, 1])]
def _mm3(A, Bm): return [[sum(A[i][k] * Bm[k][j] for k in range(3)) for j in range(3)] for i in range(3)]
CAMERAS[3] = ('yaw_roll_rational', _mm3([[F_(4, 5), 0, F_(-3, 5)], [0, 1, 0], [F_(3, 5), 0, F_(4, 5)]], [[F_(12, 13), F_(5, 13), 0], [F_(-5, 13), F_(12, 13), 0], [0, 0, 1]]), [1, 1, 1])
FRUSTA = [('symmetric', [F_(1), F_(100), F_(-1, 8), F_(1, 8), F_(1, 8), F_(-1, 8)], False),
          ('asymmetric', [F_(1), F_(10), F_(-1, 4), F_(1, 2), F_(3, 4), F_(-1, 8)], False),
          ('ortho', [F_(1, 2), F_(8), F_(-2), F_(1), F_(3), F_(-1)], True)]


def frustum_raw(e, T, ortho, name='f', concrete=None):
    """Raw argument describing a Frustum<T> object (vptr, six planes, bool) from the IR's own layout"""
    f = e.m.funcs['@w_fr_proj' + T]
    ty = f.params[0][0].to
    L = Layout(e.m); rt = L.res(ty)
    offs = [L.fieldoff(rt, i) for i in range(len(rt.fields))]
    # fields: vptr, near, far, left, right, top, bottom, ortho
    names = ['near', 'far', 'left', 'right', 'top', 'bottom']
    if concrete is not None:
        fields = [(offs[0], 'p', None)] + [(offs[1 + i], 'c', ('%s_%s' % (name, names[i]), concrete[i])) for i in range(6)] + [(offs[7], 'i', (1 if ortho else 0, 1))]
        return Raw(name, L.sizeof(rt), fields)
    fields = [(offs[0], 'p', None)] + [(offs[1 + i], 'r', '%s_%s' % (name, names[i])) for i in range(6)] + [(offs[7], 'i', (1 if ortho else 0, 1))]
    return Raw(name, L.sizeof(rt), fields)


def fr(I, name='f'):
    return [I['%s_%s' % (name, k)] for k in ('near', 'far', 'left', 'right', 'top', 'bottom')]


def fpre(ortho, name='f'):
    def pre(I):
        n, f, l, r, t, b = fr(I, name)
        e = Fraction(1, B)
        cs = []
        def rng(v, lo, hi):
            v = R(v)
            return AND(v.n >= lo, v.n <= hi) if not v.conc() else (lo <= v.frac() <= hi)
        cs += [rng(x, -B, B) for x in (n, f, l, r, t, b)]
        cs += [le(radd(n, rz(e)), f), le(radd(l, rz(e)), r), le(radd(b, rz(e)), t)]
        if not ortho: cs.append(le(rz(e), n))
        return cs
    return pre


def fsample(rng, inp, name='f'):
    n = Fraction(rng.randint(1, 16), 8); inp['%s_near' % name] = [n]; inp['%s_far' % name] = [n + Fraction(rng.randint(1, 64), 8)]
    l = Fraction(rng.randint(-16, 8), 8); inp['%s_left' % name] = [l]; inp['%s_right' % name] = [l + Fraction(rng.randint(1, 32), 8)]
    b = Fraction(rng.randint(-16, 8), 8); inp['%s_bottom' % name] = [b]; inp['%s_top' % name] = [b + Fraction(rng.randint(1, 32), 8)]
    return inp


def corners(I, ortho):
    n, f, l, r, t, b = fr(I)
    out = []
    for x, sx in ((l, -1), (r, 1)):
        for y, sy in ((b, -1), (t, 1)):
            out.append(([x, y, rneg(n)], (sx, sy, -1)))
            s = rz(1) if ortho else rdiv(f, n)
            out.append(([rmul(x, s), rmul(y, s), rneg(f)], (sx, sy, 1)))
    return out


def cases(e, T):
    cs = []
    def add(name, func, args, claim, ortho, **kw):
        kw.setdefault('bounds', BOUNDS)
        kw.setdefault('pre', fpre(ortho))
        kw.setdefault('sample', fsample)
        kw.setdefault('setup', lambda sym: contracts.install(sym, sym.m))
        cs.append(Case('%s.%s.%s' % (name, 'ortho' if ortho else 'persp', T), func, args, claim, T=T, **kw))
    for ortho in (False, True):
        F = frustum_raw(e, T, ortho)
        def proj(I, O, X, ortho=ortho):
            Mx = M(O['m'], 4); cl = []
            for k, (p, ndc) in enumerate(corners(I, ortho)):
                h = vm(p + [rz(1)], Mx)
                for i in range(3):
                    cl.append(('corner %d -> ndc[%d] == %d' % (k, i, ndc[i]), eq(h[i], rmul(rz(ndc[i]), h[3]))))
                cl.append(('corner %d: w != 0' % k, ne(h[3], rz(0))))
            return cl
        add('O1.projectionMatrix_corners', 'w_fr_proj{T}', [F, Out('m', 16)], proj, ortho, desc='projectionMatrix maps the eight frustum corners to the corners of [-1,1]^3 (after the homogeneous divide)')
        def p2s(I, O, X, ortho=ortho):
            n, f, l, r, t, b = fr(I); p = I['p']
            # textbook projection matrix of this frustum (same documented layout), applied to p
            if ortho:
                x = rdiv(rsub(rmul(rz(2), p[0]), radd(r, l)), rsub(r, l)); y = rdiv(rsub(rmul(rz(2), p[1]), radd(t, b)), rsub(t, b))
            else:
                # x_ndc = (2n x + (r+l) z) / ((r-l) * (-z))
                x = rdiv(radd(rmul(rmul(rz(2), n), p[0]), rmul(radd(r, l), p[2])), rmul(rsub(r, l), rneg(p[2])))
                y = rdiv(radd(rmul(rmul(rz(2), n), p[1]), rmul(radd(t, b), p[2])), rmul(rsub(t, b), rneg(p[2])))
            return [('screen x == (p*projectionMatrix).x / w', eq(O['s'][0], x)), ('screen y == (p*projectionMatrix).y / w', eq(O['s'][1], y))]
        add('O2.projectPointToScreen', 'w_fr_point_to_screen{T}', [F, In('p', 3), Out('s', 2)], p2s, ortho,
            pre=(lambda ortho: lambda I: fpre(ortho)(I) + [ne(I['p'][2], rz(0))] + [AND(R(v).n >= -B, R(v).n <= B) if not R(v).conc() else True for v in I['p']])(ortho),
            desc='projectPointToScreen(p) == x,y of p * projectionMatrix after the divide (p.z != 0)')
        def rt(I, O, X):
            return veq(O['r'], I['s'], 'screen')
        add('O3.projectScreenToRay_roundtrip', 'w_fr_ray_roundtrip{T}', [F, In('s', 2), Val('t'), Out('r', 2)], rt, ortho,
            pre=(lambda ortho: lambda I: fpre(ortho)(I) + [le(rz(Fraction(1, B)), I['t']), le(I['t'], rz(B))] + [AND(R(v).n >= -B, R(v).n <= B) if not R(v).conc() else True for v in I['s']])(ortho),
            sample=lambda rng, inp: (fsample(rng, inp), inp.__setitem__('t', [Fraction(rng.randint(1, 40), 8)]), inp)[2],
            desc='every point ray(t), t>0, of projectScreenToRay(s) projects back to s', budget=240)
        def nz(I, O, X, ortho=ortho):
            n, f, l, r, t, b = fr(I); z = O['ret']; zv = I['z']
            zp = rsub(rmul(zv, rz(2)), rz(1))
            # depth z maps through the projection matrix to z_ndc: ortho: (-2 z - (f+n))/(f-n); persp: (-(f+n) z - 2fn)/((f-n)(-z))
            if ortho: ndc = rdiv(rsub(rmul(rz(-2), z), radd(f, n)), rsub(f, n))
            else: ndc = rdiv(rsub(rmul(rneg(radd(f, n)), z), rmul(rz(2), rmul(f, n))), rmul(rsub(f, n), rneg(z)))
            return [('matrix depth of the returned z == 2*zval - 1', eq(ndc, zp))]
        add('O4.normalizedZToDepth_agrees_with_matrix', 'w_fr_nz_to_depth{T}', [F, Val('z')], nz, ortho,
            pre=(lambda ortho: lambda I: fpre(ortho)(I) + [le(rz(0), I['z']), le(I['z'], rz(1))])(ortho),
            sample=lambda rng, inp: (fsample(rng, inp), inp.__setitem__('z', [Fraction(rng.randint(0, 8), 8)]), inp)[2],
            desc='normalizedZToDepth(zval) returns the depth whose projection-matrix z is 2*zval-1 (zval in [0,1])')
        add('O6.aspect', 'w_fr_aspect{T}', [F], lambda I, O, X: (lambda n, f, l, r, t, b: eq(O['ret'], rdiv(rsub(r, l), rsub(t, b))))(*fr(I)), ortho, desc='aspect() == (right-left)/(top-bottom)')
        def planes(I, O, X, ortho=ortho):
            P = [O['p'][4 * k:4 * k + 4] for k in range(6)]; cl = []
            cn = [p for p, _ in corners(I, ortho)]
            # which corners lie on which plane: order top,right,bottom,left,near,far ; corner ndc signs (sx,sy,sz)
            on = {0: lambda s: s[1] == 1, 1: lambda s: s[0] == 1, 2: lambda s: s[1] == -1, 3: lambda s: s[0] == -1, 4: lambda s: s[2] == -1, 5: lambda s: s[2] == 1}
            sg = [s for _, s in corners(I, ortho)]
            for k in range(6):
                nrm, d = P[k][:3], P[k][3]
                cl.append(('plane %d: unit normal' % k, unit(nrm)))
                cl.append(('plane %d: all 8 corners on the non-positive side' % k, AND(*[le(rdot(nrm, c), d) for c in cn])))
                cl.append(('plane %d: its own 4 corners lie on it (documented order top,right,bottom,left,near,far)' % k, AND(*[eq(rdot(nrm, c), d) for c, s in zip(cn, sg) if on[k](s)])))
            return cl
        add('O7.planes', 'w_fr_planes{T}', [F, Out('p', 24)], planes, ortho, budget=280, timeout_ms=30000,
            desc='planes(): six outward unit normals in the order top,right,bottom,left,near,far; every corner on the non-positive side, each plane through its own four corners')
    # perspective only
    F = frustum_raw(e, T, False)
    add('O5.screenRadius_worldRadius_inverse', 'w_fr_radius_roundtrip{T}', [F, In('p', 3), Val('r')], lambda I, O, X: eq(O['ret'], I['r']), False,
        pre=lambda I: fpre(False)(I) + [ne(I['p'][2], rz(0))], desc='worldRadius(p, screenRadius(p, r)) == r (p.z != 0)')
    def vis(I, O, X):
        n, f, l, r, t, b = fr(I); p = I['p']; v = asb(O['ret'])
        z = rneg(p[2])     # distance in front of the eye
        inside = AND(lt(n, z), lt(z, f), lt(rmul(l, z), rmul(p[0], n)), lt(rmul(p[0], n), rmul(r, z)), lt(rmul(b, z), rmul(p[1], n)), lt(rmul(p[1], n), rmul(t, z)))
        return [('visible => strictly inside', IMPLIES(v, inside)), ('strictly inside => visible', IMPLIES(inside, v))]
    ident = {i: (1 if i % 5 == 0 else 0) for i in range(16)}
    add('O8.FrustumTest_isVisible_point', 'w_ft_visible_point{T}', [F, In('cam', 16, fixed=ident), In('p', 3)], vis, False, budget=900, timeout_ms=60000, core=False, tier='thorough',
        desc='FrustumTest::isVisible(point) <=> the point is strictly inside the frustum (identity camera, perspective)')
    # ---- FrustumTest culling for pinned frusta and cameras, every box / sphere / point (all quantities exact rationals)
    for cname, R3, tr in CAMERAS:
        for fname, fv, fortho in FRUSTA:
            FC = frustum_raw(e, T, fortho, concrete=fv)
            cam = {}
            for i in range(3):
                for j in range(3): cam[4 * i + j] = R3[i][j]
                cam[4 * i + 3] = 0
            for j in range(3): cam[12 + j] = tr[j]
            cam[15] = 1
            def inside(p, strict, R3=R3, tr=tr, fv=fv, fortho=fortho):
                """p (world) inside the frustum: camera-space q = (p - tr) * R^T"""
                d = [rsub(p[i], rz(tr[i])) for i in range(3)]
                q = [rsum(rmul(d[j], rz(R3[i][j])) for j in range(3)) for i in range(3)]
                n, f, l, r, t, b = [rz(x) for x in fv]
                cmp = lt if strict else le
                z = rneg(q[2])
                if fortho:
                    return AND(cmp(n, z), cmp(z, f), cmp(l, q[0]), cmp(q[0], r), cmp(b, q[1]), cmp(q[1], t))
                return AND(cmp(n, z), cmp(z, f), cmp(rmul(l, z), rmul(q[0], n)), cmp(rmul(q[0], n), rmul(r, z)), cmp(rmul(b, z), rmul(q[1], n)), cmp(rmul(q[1], n), rmul(t, z)))
            def boxvis(I, O, X, inside=inside):
                bx = I['b']; p = [X.free('p%d' % i) for i in range(3)]
                inb = AND(*[AND(le(bx[i], p[i]), le(p[i], bx[3 + i])) for i in range(3)])
                return [('a box holding a point strictly inside the frustum is never reported invisible', IMPLIES(AND(inb, inside(p, True)), asb(O['ret'])))]
            def boxin(I, O, X, inside=inside):
                bx = I['b']; p = [X.free('p%d' % i) for i in range(3)]
                inb = AND(*[AND(le(bx[i], p[i]), le(p[i], bx[3 + i])) for i in range(3)])
                return [('completelyContains(box) => every point of the box is inside the (closed) frustum', IMPLIES(AND(asb(O['ret']), inb), inside(p, False)))]
            def sphvis(I, O, X, inside=inside):
                c = I['s'][:3]; rad = I['s'][3]; p = [X.free('p%d' % i) for i in range(3)]
                ins = le(norm2(vsub(p, c)), rmul(rad, rad))
                return [('a sphere holding a point strictly inside the frustum is never reported invisible', IMPLIES(AND(ins, inside(p, True)), asb(O['ret'])))]
            def sphin(I, O, X, inside=inside):
                c = I['s'][:3]; rad = I['s'][3]; p = [X.free('p%d' % i) for i in range(3)]
                ins = le(norm2(vsub(p, c)), rmul(rad, rad))
                return [('completelyContains(sphere) => every point of the sphere is inside the (closed) frustum', IMPLIES(AND(asb(O['ret']), ins), inside(p, False)))]
            def ptvis(I, O, X, inside=inside):
                return [('isVisible(point) <=> the point is strictly inside the frustum', AND(IMPLIES(asb(O['ret']), inside(I['p'], True)), IMPLIES(inside(I['p'], True), asb(O['ret']))))]
            boxpre = lambda I: boxed(I['b'], 64) + [le(I['b'][i], I['b'][3 + i]) for i in range(3)]
            sphpre = lambda I: boxed(I['s'][:3], 64) + [le(rz(0), I['s'][3]), le(I['s'][3], rz(64))]
            bnd = 'frustum %s = %s (%s), camera %s (exact rational rotation + translation): pinned; every box / sphere / point with coordinates in [-64, 64]' % (fname, [str(x) for x in fv], 'orthographic' if fortho else 'perspective', cname)
            kw = dict(setup=lambda sym: contracts.install(sym, sym.m), pre=None, sample=None, nvalid=0, bounds=bnd, budget=120, timeout_ms=15000)
            tag = '%s.%s' % (cname, fname)
            def mk(nm, fn, args, claim, pre, desc):
                k2 = dict(kw); k2['pre'] = pre
                if cname == 'yaw_roll_rational' and nm.startswith('sphere'): k2.update(budget=600, timeout_ms=80000, tier='thorough', core=False)   # quadratic claim over six nested radicals: not decided in 130 s
                cs.append(Case('O9.FrustumTest.%s.%s.%s' % (nm, tag, T), fn.replace('{T}', T), args, claim, T=T, desc=desc, **k2))
            CAM = In('cam', 16, fixed=cam)
            mk('box_visible', 'w_ft_visible_box{T}', [FC, CAM, In('b', 6)], boxvis, boxpre, 'FrustumTest::isVisible(box) is never false for a box that touches the frustum interior')
            mk('box_contained', 'w_ft_contains_box{T}', [FC, CAM, In('b', 6)], boxin, boxpre, 'FrustumTest::completelyContains(box) is never true for a box with a point outside the frustum')
            mk('sphere_visible', 'w_ft_visible_sphere{T}', [FC, CAM, In('s', 4)], sphvis, sphpre, 'FrustumTest::isVisible(sphere) is never false for a sphere that touches the frustum interior')
            mk('sphere_contained', 'w_ft_contains_sphere{T}', [FC, CAM, In('s', 4)], sphin, sphpre, 'FrustumTest::completelyContains(sphere) is never true for a sphere with a point outside the frustum')
            mk('point_visible', 'w_ft_visible_point{T}', [FC, CAM, In('p', 3)], ptvis, lambda I: boxed(I['p'], 64), 'FrustumTest::isVisible(point) <=> strictly inside')
    return cs


def build(chk):
    e = EngC(chk, 'frustum', keep_calls=[contracts.LENGTH_RE])
    for T in ('d', 'f'):
        for c in cases(e, T):
            if T == 'f' and chk.tier != 'thorough' and c.budget > 150: continue
            e.add(c)
    chk.assumptions += ['Frustum objects are built directly as memory state from the IR layout (vptr opaque, six plane parameters symbolic, projection kind concrete)',
                        'Vec3::length() replaced by its contract (C08)', 'non-degenerate frusta only: see bounds']
    chk.outside += ['ZToDepth / DepthToZ (long casts of symbolic reals are not encodable in engine C)', 'fovx/fovy/set(fov,aspect) (atan2/tan)', 'planes(p, M) for a general camera matrix and FrustumTest box/sphere culling: not yet attempted',
                    'window(), modifyNearAndFar(): not yet attempted']
