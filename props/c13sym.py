"""C13, engine-C part: clip / closestPoint* are nearest points; box transforms are tight bounds of the corner images."""
from fractions import Fraction
from vf.engc import EngC
from props.symutil import *
from props.c15 import vsub, boxed
from props.c14 import inbox, onsurface

FMAX = {'f': Fraction(2 ** 128 - 2 ** 104), 'd': Fraction(2 ** 1024 - 2 ** 971)}


def nonempty(b): return [le(b[i], b[3 + i]) for i in range(3)]


def cases(T):
    cs = []
    def add(name, func, args, claim, **kw):
        kw.setdefault('bounds', 'all real boxes/points/matrices with entries in [-2^20, 2^20]')
        cs.append(Case('O3.%s.%s' % (name, T), func, args, claim, T=T, **kw))
    def nearest(I, O, X):
        b = I['b']; p = I['p']; r = O['r']; q = [X.free('q%d' % i) for i in range(3)]
        return [('result in the box', inbox(r, b)), ('no box point is strictly nearer', IMPLIES(inbox(q, b), le(norm2(vsub(p, r)), norm2(vsub(p, q)))))] + \
               [('component %d is the clamp of p' % i, OR(AND(lt(p[i], b[i]), eq(r[i], b[i])), AND(lt(b[3 + i], p[i]), eq(r[i], b[3 + i])), AND(le(b[i], p[i]), le(p[i], b[3 + i]), eq(r[i], p[i])))) for i in range(3)]
    for fn, nm in (('w_clip3', 'clip'), ('w_closestin3', 'closestPointInBox')):
        add(nm, fn + '{T}', [In('p', 3), In('b', 6), Out('r', 3)], nearest, pre=lambda I: boxed(I['p'] + I['b']) + nonempty(I['b']), desc='%s(p, box): the nearest point of a non-empty box (component-wise clamp)' % nm)
    def onbox(I, O, X):
        b = I['b']; p = I['p']; r = O['r']; q = [X.free('q%d' % i) for i in range(3)]
        return [('on the surface', onsurface(r, b)), ('no surface point is strictly nearer', IMPLIES(onsurface(q, b), le(norm2(vsub(p, r)), norm2(vsub(p, q)))))]
    add('closestPointOnBox', 'w_closeston3{T}', [In('p', 3), In('b', 6), Out('r', 3)], onbox, pre=lambda I: boxed(I['p'] + I['b']) + nonempty(I['b']), budget=240,
        desc='closestPointOnBox(p, box): a point of the surface of a non-empty box with no surface point strictly nearer', core=False)
    add('closestPointOnBox_empty', 'w_closeston3{T}', [In('p', 3), In('b', 6), Out('r', 3)], lambda I, O, X: veq(O['r'], I['p']),
        pre=lambda I: boxed(I['p'] + I['b']) + [OR(*[lt(I['b'][3 + i], I['b'][i]) for i in range(3)])], desc='closestPointOnBox of an empty box is the point itself')
    affine_fx = {4 * i + 3: (1 if i == 3 else 0) for i in range(4)}
    def tight(I, O, X):
        b = I['b']; Mx = M(I['m'], 4); r = O['r']; cl = []
        imgs = []
        for k in range(8):
            c = [b[3 * ((k >> i) & 1) + i] for i in range(3)]
            imgs.append(vm(c + [rz(1)], Mx)[:3])
        for k, im in enumerate(imgs):
            cl.append(('contains the image of corner %d' % k, AND(*[AND(le(r[j], im[j]), le(im[j], r[3 + j])) for j in range(3)])))
        for j in range(3):
            cl.append(('min[%d] is attained by a corner image' % j, OR(*[eq(r[j], im[j]) for im in imgs])))
            cl.append(('max[%d] is attained by a corner image' % j, OR(*[eq(r[3 + j], im[j]) for im in imgs])))
        return cl
    empt = lambda I: boxed(I['b'] + I['m']) + [OR(*[lt(I['b'][3 + i], I['b'][i]) for i in range(3)])]
    for fn, nm in (('w_xform', 'transform'), ('w_xform_out', 'transform_outparam'), ('w_affine', 'affineTransform'), ('w_affine_out', 'affineTransform_outparam')):
        add(nm + '.affine_tight', fn + '{T}', [In('b', 6), In('m', 16, fixed=affine_fx), Out('r', 6)], tight, pre=lambda I: boxed(I['b'] + I['m']) + nonempty(I['b']), budget=240, max_paths=600,
            desc='%s, affine matrix: the exact tight axis-aligned bound of the eight corner images (contains each, every bound attained)' % nm)
        add(nm + '.empty_to_empty', fn + '{T}', [In('b', 6), In('m', 16), Out('r', 6)], lambda I, O, X: [('result is empty', OR(*[lt(O['r'][3 + i], O['r'][i]) for i in range(3)]))], pre=empt,
            desc='%s maps every empty box to an empty box (general matrix)' % nm, nvalid=0)
        inf = {i: (-FMAX[T] if i < 3 else FMAX[T]) for i in range(6)}
        add(nm + '.infinite_to_infinite', fn + '{T}', [In('b', 6, fixed=inf), In('m', 16), Out('r', 6)],
            lambda I, O, X, T=T: veq(O['r'], [rz(-FMAX[T])] * 3 + [rz(FMAX[T])] * 3, 'bound'), pre=lambda I: boxed(I['m']), desc='%s maps the infinite box to the infinite box (general matrix)' % nm, nvalid=0)
    # projective matrices that differ from an affine one in exactly one entry of the last column: the affine fast path must
    # not be taken (its test reads all four entries); the result must still contain the image of every corner
    def proj(I, O, X):
        b = I['b']; Mx = M(I['m'], 4); r = O['r']; cl = []
        imgs = []
        for k in range(8):
            c = [b[3 * ((k >> i) & 1) + i] for i in range(3)]
            h = vm(c + [rz(1)], Mx); imgs.append([rdiv(h[j], h[3]) for j in range(3)])
        for k, im in enumerate(imgs):
            cl.append(('contains the projected image of corner %d' % k, AND(*[AND(le(r[j], im[j]), le(im[j], r[3 + j])) for j in range(3)])))
        for j in range(3):
            cl.append(('min[%d] is attained by a corner image' % j, OR(*[eq(r[j], im[j]) for im in imgs])))
            cl.append(('max[%d] is attained by a corner image' % j, OR(*[eq(r[3 + j], im[j]) for im in imgs])))
        return cl
    def wpos(I):
        b = I['b']; Mx = M(I['m'], 4); cs = boxed(I['b'] + [v for v in I['m']]) + nonempty(I['b'])
        for k in range(8):
            c = [b[3 * ((k >> i) & 1) + i] for i in range(3)]
            cs.append(lt(rz(0), vm(c + [rz(1)], Mx)[3]))        # every corner in front of the projection centre (w > 0)
        return cs
    for fn, nm in (('w_xform', 'transform'), ('w_xform_out', 'transform_outparam')):
        for col, fx in (('p001', {7: 0, 11: 0, 15: 1}), ('0p01', {3: 0, 11: 0, 15: 1}), ('00p1', {3: 0, 7: 0, 15: 1}), ('000q', {3: 0, 7: 0, 11: 0})):
            add('%s.projective_%s' % (nm, col), fn + '{T}', [In('b', 6), In('m', 16, fixed=fx), Out('r', 6)], proj, pre=wpos, budget=900, max_paths=50, timeout_ms=60000, core=False, tier='thorough', nvalid=2, setup=lambda sym: setattr(sym, 'div_as_var', True),
                desc='%s with last column %s (one projective entry free): the result is the tight bound of the eight PROJECTED corner images - the affine fast path must not be taken unless the column is exactly (0,0,0,1)' % (nm, col),
                bounds='entries in [-2^20, 2^20]; every corner has w > 0')
    return cs


def build_obs(chk):
    e = EngC(chk, 'boxalgo')
    for T in ('d', 'f'):
        for c in cases(T):
            if T == 'f' and chk.tier != 'thorough' and c.budget > 150: continue
            e.add(c)
    chk.outside += ['projective (non-affine) box transforms beyond empty/infinite handling: not yet attempted', 'rounding in the Arvo accumulation']
