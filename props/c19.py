"""C19 - PyImath arrays index like Python sequences and honour read-only protection."""
import os, threading
from vf.common import *
from vf.engb import EngB
from vf import build as Bd

_lock = threading.Lock()
_exe = {}


def native_replay(chk, ob, inp, r):
    """embedded-CPython replay against the real PyImath headers (harness/c19/replay.cpp)"""
    with _lock:
        if 'p' not in _exe:
            exe = os.path.join(chk.wd, 'c19_replay')
            must(['g++', '-std=c++17', '-O1', '-w', '-DNDEBUG'] + Bd.includes(chk.wd, py=True) + [os.path.join(VERIF, 'harness', 'c19', 'replay.cpp'), '-o', exe, '-lboost_python311', '-lpython3.11'], timeout=600)
            _exe['p'] = exe
    rc, out, err, dt = run([_exe['p'], ob.func, inp], timeout=120)
    write(inp[:-3] + '.sh', '#!/bin/sh\n# native replay: embedded CPython + real PyImath headers\n# build: g++ -std=c++17 -I<cfg> -I/repo/src/Imath -I/repo/src/python/PyImath -I/usr/include/python3.11 /verif/harness/c19/replay.cpp -lboost_python311 -lpython3.11\n./c19_replay %s %s\n' % (ob.func, inp))
    return (rc == 1 and 'REPLAY-FAIL' in out), out + err

H = 'c19/array.c'
N = 3
B = 'FixedArray<int>: every length 0..%d, stride 1..2, writable or not, direct or masked view with arbitrary valid mask indices, arbitrary contents' % N


def import_replay(chk, ob, inp, r):
    """native confirmation with a real Python exporter (array.array / bytes reshaped through memoryview.cast) under ASan"""
    import os
    from vf.common import VERIF, run, must, PYSRC, SRC
    from vf.build import config_dir
    exe = os.path.join(chk.wd, 'replay_import')
    if not os.path.exists(exe):
        must(['g++', '-std=c++17', '-O1', '-g', '-fsanitize=address', '-fno-omit-frame-pointer', '-w', '-I', config_dir(chk.wd), '-I', SRC, '-I', PYSRC, '-I', '/usr/include/python3.11',
              os.path.join(VERIF, 'harness', 'c19', 'replay_import.cpp'), '-o', exe, '-lboost_python311', '-lpython3.11'], timeout=900)
    env = dict(os.environ); env['ASAN_OPTIONS'] = 'detect_leaks=0'
    import subprocess
    p = subprocess.run([exe, inp, 'f' if ob.func.endswith('_f') else 'v3f'], capture_output=True, text=True, timeout=120, env=env)
    out = p.stdout + p.stderr
    return (p.returncode != 0 and ('REPLAY-FAIL' in out or 'AddressSanitizer' in out)), out


def buffer_replay(chk, ob, inp, r):
    tag = ob.func[len('h_buf_'):]
    with _lock:
        if 'b' not in _exe:
            exe = os.path.join(chk.wd, 'c19_replay_buf')
            must(['g++', '-std=c++17', '-O1', '-w', '-DNDEBUG'] + Bd.includes(chk.wd, py=True) + [os.path.join(VERIF, 'harness', 'c19', 'replay_buf.cpp'), '-o', exe, '-lboost_python311', '-lpython3.11'], timeout=600)
            _exe['b'] = exe
    v = r['inputs']
    rc, out, err, dt = run([_exe['b'], tag, str(v.get('len', 0)), str(v.get('stride', 1)), str(v.get('wr', 1) & 1)], timeout=60)
    return (rc == 1 and 'REPLAY-FAIL' in out), out + err


def build(chk):
    e = EngB(chk, 'pyarray', py=True, validate=False)
    e.variant('exact')
    def ob(oid, func, desc, **kw):
        kw.setdefault('timeout', 240); kw.setdefault('unwind', 2 * N + 2); kw.setdefault('backends', ('kissat', 'cadical', 'minisat'))
        o = e.ob(oid, H, func, desc, defines=('N=%d' % N,), extra=('--pointer-overflow-check',), **kw)
        o.custom_replay = native_replay     # native replay goes through the embedded-Python driver (harness/c19/replay.cpp)
        return o
    chk.add(ob('O1.canonical_index', 'h_canonical_index', 'canonical_index: negative indices count from the end; out of range raises IndexError', bounds=B + '; all 2^64 index values'))
    chk.add(ob('O1.getitem', 'h_getitem', '__getitem__(int) returns the element a Python list returns; out of range raises without touching memory; __len__', bounds=B + '; all 2^64 index values'))
    chk.add(ob('O2.setitem_scalar_slice', 'h_setitem_scalar_slice', 'a[start:stop:step] = v writes exactly the elements a Python list slice selects (CPython PySlice_AdjustIndices semantics), nothing else, never out of bounds',
               bounds=B + '; start, stop in [-9,9], step in [-6,6]\\{0}', unwind=2 * N + 2, timeout=400))
    chk.add(ob('O2.setitem_scalar_int', 'h_setitem_scalar_int', 'a[i] = v writes exactly one element or raises IndexError', bounds=B + '; all 2^64 index values'))
    chk.add(ob('O2.setitem_vector_mask', 'h_setitem_vector_mask', 'a[mask] = b: stores b[i] where mask[i] (equal lengths) or the elements of b in order (b as long as the mask selects); a masked reference, a mask of another length or a source of neither length raises and writes nothing', bounds=B + '; mask and source arrays direct, lengths 0..%d, arbitrary contents' % N, timeout=600))
    chk.add(ob('O2.setitem_vector_slice_masked', 'h_setitem_vector_slice_masked', 'view[slice] = b on a masked reference (of a possibly strided view): assigns element-wise into exactly the selected slots of the backing store when the lengths match, else raises and writes nothing', bounds=B + ' (masked view, arbitrary increasing mask indices); slice start/stop in -5..5, step -3..3; source length 0..%d' % N, timeout=600))
    chk.add(ob('O2.setitem_vector_slice', 'h_setitem_vector_slice', 'a[slice] = b assigns element-wise when the lengths match, else raises and writes nothing', bounds=B + ' (direct view); source length 0..%d' % N, timeout=400))
    chk.add(ob('O2.setitem_scalar_mask', 'h_setitem_scalar_mask', 'a[mask] = v writes exactly where the mask is non-zero; mask length mismatch raises', bounds=B + ' (direct view); mask length 0..%d' % N))
    for nm, d in (('index_store', 'operator[] (non-const)'), ('direct_store', 'direct_index'), ('setitem_scalar', 'setitem_scalar'), ('setitem_vector', 'setitem_vector'), ('setitem_scalar_mask', 'setitem_scalar_mask'),
                  ('setitem_vector_mask', 'setitem_vector_mask'), ('writable_direct_access', 'WritableDirectAccess'), ('writable_masked_access', 'WritableMaskedAccess (masked view of a read-only array)')):
        chk.add(ob('O3.readonly.%s' % nm, 'h_ro_%s' % nm, 'read-only array: %s raises and leaves every element unchanged' % d, bounds=B + ' with writable == false'))
    chk.add(ob('O4.accessors', 'h_accessors', 'ReadOnly/Writable Direct/Masked access classes read and write exactly the i-th selected element; the wrong kind is refused', bounds=B))
    chk.add(ob('O4.match_dimension', 'h_match_dimension', 'match_dimension accepts equal lengths (non-strict: also the unmasked length of a masked reference) and raises otherwise', bounds=B))
    chk.add(ob('O4.makeReadOnly', 'h_make_readonly', 'makeReadOnly clears writable() and leaves the data alone', bounds=B))
    # ---- FixedArray2D
    e2d = EngB(chk, 'pyarray2d', py=True, validate=False)
    e2d.variant('exact')
    N2D = 2 if chk.tier != 'thorough' else 3
    B2D = 'every valid FixedArray2D<int> with lengths <= %d per dimension, element stride 1..2, row pitch lx..lx+1, arbitrary contents; per dimension an integer index in -4..4 or a forward slice (start/stop -4..4, step 1..3)' % N2D
    B2D = 'every valid FixedArray2D<int> with lengths <= %d per dimension, element stride 1..2, row pitch lx..lx+1, arbitrary contents; per dimension an integer index in -3..3 or a forward slice (start/stop -3..3, step 1..2)' % N2D
    chk.add(e2d.ob('O7.FixedArray2D.getitem', 'c19/array2d.c', 'h_2d_getitem', 'FixedArray2D<int>: a[i,j] reads the element a nested Python list selects, negative indices included; out of range raises IndexError', defines=('N=%d' % N2D,),
                   unwind=2 * (N2D + 1) * N2D + 2, timeout=600, bounds=B2D, extra=('--pointer-overflow-check',), backends=('kissat', 'minisat', 'cadical')))
    for hn, what in (('setitem_scalar', 'a[xs,ys] = v writes exactly the elements selected by the two forward slices / integers'),
                     ('setitem_vector', 'a[xs,ys] = b assigns element-wise when the shapes match, else raises and writes nothing'),
                     ('setitem_array1d', 'a[xs,ys] = <1-D array> consumes the source row by row when its length is the number of selected elements, else raises and writes nothing')):
        for kinds, kn in ((1, 'int_slice'), (2, 'slice_int'), (3, 'int_int')):
            chk.add(e2d.ob('O7.FixedArray2D.%s.%s' % (hn, kn), 'c19/array2d.c', 'h_2d_' + hn, 'FixedArray2D<int>: ' + what + ' (index kinds: %s)' % kn.replace('_', ', '), defines=('N=%d' % N2D, 'KINDS=%d' % kinds),
                           unwind=2 * (N2D + 1) * N2D + 2, timeout=900, bounds=B2D, extra=('--pointer-overflow-check',), backends=('kissat', 'minisat', 'cadical'), core=(kinds == 3)))
    chk.outside += ['FixedArray2D with slices in BOTH dimensions at once: CBMC reports an unwinding-assertion failure on the translated nested do-while loops although the trace shows two iterations (not understood; the obligation is not registered); each dimension\'s slice is decided separately with an integer in the other', 'FixedArray2D masks, FixedMatrix']
    # ---- buffer interface
    eb = EngB(chk, 'pybuffer', py=True, validate=False)
    eb.variant('exact', only=['w_buf_describe_' + t for t in ('i', 'f', 'd', 's', 'v2f', 'v3f', 'v4d', 'v3i')])
    for t, nm in (('i', 'int'), ('f', 'float'), ('d', 'double'), ('s', 'short'), ('v2f', 'V2f'), ('v3f', 'V3f'), ('v4d', 'V4d'), ('v3i', 'V3i')):
        o = eb.ob('O5.buffer_description.%s' % t, 'c19/buffer.c', 'h_buf_' + t, 'buffer export of FixedArray<%s>: itemsize, ndim, shape, strides, readonly, buf and len describe exactly the array memory (len == length*stride*sizeof(element); contiguous: product of shape * itemsize)' % nm,
                  unwind=4, timeout=120, bounds='all lengths 0..8, strides 1..3, writable or not', backends=('minisat', 'kissat'))
        o.custom_replay = buffer_replay
        chk.add(o)
    eb.variant('imp', only=['w_from_buffer_f', 'w_from_buffer_v3f'])
    for t, nm in (('f', 'float'), ('v3f', 'V3f')):
        o = eb.ob('O5.buffer_import.%s' % t, 'c19/buffer.c', 'h_import_' + t, 'fixedArrayFromBuffer<FixedArray<%s>>: from ANY well-formed contiguous exporter description it either raises (view released) or returns an array holding exactly the source elements; buffers whose element format or total size do not match are rejected; no read of the source or write of the new array out of bounds' % nm,
                  variant='imp', defines=('IMPORT_HARNESS',), unwind=50, timeout=900, bounds='ndim 1..2, shape[0] <= 2, shape[1] <= 3, itemsize 1/2/4/8, one-character formats f d i h B l and a byte-order prefix, arbitrary contents; exporter contract: len == product(shape)*itemsize, C-contiguous',
                  backends=('kissat', 'minisat', 'cadical'), extra=('--object-bits', '12'))
        o.custom_replay = import_replay
        chk.add(o)
    # ---- FixedVArray rows
    ev = EngB(chk, 'pyvarray', py=True, validate=False)
    ev.variant('exact')
    o = ev.ob('O6.FixedVArray_getitem_row_view', 'c19/varray.c', 'h_varray_getitem', 'FixedVArray<int>.__getitem__(int): selects the row a list of lists selects (negative, masked, out-of-range indices) and the row view inherits the read-only flag',
              defines=('N=%d' % N,), unwind=2 * N + 2, timeout=240, bounds='all lengths 0..%d, stride 1..2, direct or masked, writable or not, row lengths 0..4, all 2^64 indices' % N, backends=('kissat', 'cadical', 'minisat'))
    o.replay_link = (ev.real(),)
    chk.add(o)
    chk.stubs += ['operator new[] / delete[] (shape and stride arrays of BufferAPI): exactly-sized heap objects', 'PySlice_Unpack: returns the (start, stop, step) chosen by the harness', 'PySlice_AdjustIndices: transcription of CPython\'s public algorithm (this IS the Python-list slice semantics)',
                  'PyLong_AsSsize_t: returns the harness-chosen index', 'PyErr_SetString: no-op', 'boost::python::throw_error_already_set: sets the exception flag (PYERR)', 'shared_array reference counts start at 1000 (never reach zero)']
    chk.assumptions += ['representation invariant of a masked reference: _indices[i] < _unmaskedLength, _length <= _unmaskedLength',
                        'operation sequences are covered through one step from an arbitrary valid state', 'libstdc++ exception object constructors have no effect on the array']
    chk.outside += ['lifetime of views under arbitrary release order (boost::any/shared_array graphs and boost.python call policies behind the Python FFI)', 'StringTable/StringArray (boost::multi_index)', 'FixedVArray beyond __getitem__(int) row views, FixedArray2D, FixedMatrix: not yet covered',
                    'getslice / mask constructors (heap allocation through shared_array): not yet covered', 'fixedArrayFromBuffer (candidate: copies view.len bytes into shape[0] elements without a size check): not yet covered', 'element types other than int']
    chk.not_encodable += ['view lifetimes / reference graphs', 'StringTable (boost::multi_index_container)']
