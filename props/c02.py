"""C02 - every half-conversion back-end and language mode returns identical bits."""
import os, re
from vf.common import *
from vf.runner import CbmcOb
from vf import build as B, natval
from props import c01


def build(chk):
    obA = c01.engineA(chk)
    A = 'all bit patterns'
    # O1: shipped table == bit-shift path, via the common reference (both proved equal to ref_h2f for all h)
    chk.add(obA('O1.bitshift_eq_ref', 'h_h2f_ref', 'bit-shift build of imath_half_to_float(h) == denoted value, all 2^16 h', 'notable', timeout=120))
    chk.add(obA('O1.table_wiring', 'h_table_wiring', 'table build returns entry h of the installed table (arbitrary contents)', 'symtable', timeout=120, backends=('z3',)))
    c01.table_slices(chk, obA, 'O1.table_eq_bitshift_slice')
    chk.add(obA('O1.f2h_table_build', 'h_f2h_ref', 'float->half in the table build configuration == reference (same code path, configuration macro only)', 'table', timeout=120))
    chk.add(obA('O1.f2h_notable_build', 'h_f2h_ref', 'float->half in the bit-shift configuration == reference', 'notable', timeout=120))

    H = os.path.join(VERIF, 'harness', 'c02', 'configs.c')
    incs = (os.path.join(VERIF, 'stubs', 'inc'), SRC, B.config_dir(chk.wd), chk.wd)
    # O2: generator
    gen = B.Unit(chk.wd, 'toFloat', src=os.path.join(SRC, 'toFloat.cpp'))
    hp, bp, info = gen.gen('x', only=['_Z11halfToFloatt'])
    chk.functions.update({'toFloat.cpp::' + k: '%d IR instructions' % v for k, v in info['functions'].items()})
    chk.add(CbmcOb('O2.generator_eq_bitshift', [H, bp], 'h_generator', defines=('GEN_H="%s"' % os.path.basename(hp), 'HAVE_GENERATOR'), incs=incs, unwind=12,
                   backends=('minisat', 'kissat'), timeout=120, engine='B', desc='toFloat.cpp::halfToFloat(i) == bit-shift path == denoted value for all 2^16 i',
                   bounds='all 2^16 inputs; renormalisation loop unwound 12 (>10 iterations impossible: unwinding assertion)',
                   replay_files=[H, bp]))
    aux_generator(chk)
    # O3: language modes
    for std in ('c++14', 'c++17', 'c++20'):
        u = B.Unit(chk.wd, 'halfc', std=std, defines=['IMATH_HALF_NO_LOOKUP_TABLE'])
        u.name = 'halfc_' + std.replace('+', 'x'); hp, bp, info = u.gen('x')
        chk.functions.update({'%s:%s' % (std, k): '%d IR instructions' % v for k, v in info['functions'].items()})
        natval.validate(chk, u, hp, bp, nvec=300)
        d = ('GEN_H="%s"' % os.path.basename(hp), 'HAVE_CXX')
        real = u.real_so('g++')
        chk.add(CbmcOb('O3.f2h_c_vs_%s' % std, [H, bp], 'h_cxx_f2h', defines=d, incs=incs, unwind=2, backends=('minisat', 'kissat'), timeout=120, engine='A+B',
                       desc='imath_float_to_half: C front end vs clang -std=%s IR, all 2^32 floats' % std, bounds=A, replay_link=(real,)))
        chk.add(CbmcOb('O3.h2f_c_vs_%s' % std, [H, bp], 'h_cxx_h2f', defines=d, incs=incs, unwind=2, backends=('minisat', 'kissat'), timeout=120, engine='A+B',
                       desc='imath_half_to_float (bit-shift): C front end vs clang -std=%s IR, all 2^16 halfs' % std, bounds=A, replay_link=(real,)))
    # C++ table build: wiring with an arbitrary table
    u = B.Unit(chk.wd, 'halfc', std='c++17'); u.name = 'halfc_table'
    hp, bp, info = u.gen('x')
    m = re.search(r'extern (?:const )?(struct \w+|union \w+)\s*\*\s*G_imath_half_to_float_table;', open(hp).read())
    if not m:
        raise ToolFailure('C++ table build: cannot find the external table pointer in the generated header')
    symt = m.group(1).split()[1]
    chk.add(CbmcOb('O3.cxx_table_wiring', [H, bp], 'h_cxx_table_wiring', defines=('GEN_H="%s"' % os.path.basename(hp), 'HAVE_CXX_TABLE', 'SYMTAB_T=' + symt),
                   incs=incs, unwind=2, backends=('z3',), timeout=120, engine='B', desc='C++ table build of imath_half_to_float returns entry h of the installed table (arbitrary contents)',
                   bounds=A + ', arbitrary table', replay_files=[H, bp]))
    # O4: F16C wiring with the SDM model of the two instructions
    F = os.path.join(VERIF, 'harness', 'c02', 'f16c.c')
    fincs = (os.path.join(VERIF, 'stubs', 'f16c'), SRC, B.config_dir(chk.wd))
    chk.add(CbmcOb('O4.f16c_f2h_wiring', [F], 'h_f16c_f2h', incs=fincs, unwind=2, backends=('minisat', 'kissat'), timeout=120, engine='A',
                   desc='__F16C__ build, _cvtss_sh modelled per SDM: equals software path except NaN payload; rounding immediate is round-to-nearest', bounds=A))
    chk.add(CbmcOb('O4.f16c_h2f_wiring', [F], 'h_f16c_h2f', incs=fincs, unwind=2, backends=('minisat', 'kissat'), timeout=120, engine='A',
                   desc='__F16C__ build, _cvtsh_ss modelled per SDM: equals software path except NaN payload', bounds=A))
    chk.stubs += ['_cvtsh_ss/_cvtss_sh: Intel SDM model in stubs/f16c/x86intrin.h (instruction behaviour itself is not repo code)',
                  'x86intrin.h empty stub for the software builds']
    chk.assumptions += ['O1 is table == reference AND bit-shift == reference for all h (transitivity gives table == bit-shift)',
                        'O4 is a claim about the wiring under the SDM model of VCVTPH2PS/VCVTPS2PH, not about the CPU']
    chk.outside += ['MSVC / CUDA / HIP branches of half.h (not compilable here)', 'real F16C hardware behaviour', 'iostream formatting in toFloat.cpp main() (aux diff only)']


def aux_generator(chk):
    """non-deciding: build the real generator, run it, diff with the checked-in table"""
    exe = os.path.join(chk.wd, 'toFloat_gen')
    rc, out, err, dt = run(['g++', '-O1', os.path.join(SRC, 'toFloat.cpp'), '-o', exe], timeout=120)
    if rc != 0:
        chk.aux['generator_diff'] = 'generator did not build: ' + err[-300:]; return
    rc, out, err, dt = run([exe], timeout=60)
    want = re.findall(r'0x[0-9a-fA-F]+', open(os.path.join(SRC, 'toFloat.h')).read())
    got = re.findall(r'0x[0-9a-fA-F]+', out)
    chk.aux['generator_diff'] = {'entries_printed': len(got), 'entries_checked_in': len(want), 'identical': [x.lower() for x in got] == [x.lower() for x in want]}
