"""C08 - length() and normalisation."""
from fractions import Fraction
from vf.engb import EngB
from vf.engc import EngC
from props.symutil import *
from props import contracts

H = 'c08/len.c'


def build(chk):
    e = EngB(chk, 'veclen', vopts=dict(nvec=200))
    e.variant('exact')
    e.variant('ufar', uf=['add', 'sub', 'mul', 'div', 'sqrt'])
    e.variant('ufds', uf=['div', 'sqrt'])
    for n in (2, 3, 4):
        chk.add(e.ob('O1.length_zero_iff_zero_vector.V%df' % n, H, 'h_len_zero_iff_%d' % n, 'Vec%df::length() is 0 exactly for the zero vector, finite and non-negative otherwise (real IEEE arithmetic, correctly rounded sqrtf model, incl. squares that underflow)' % n,
                     unwind=n + 2, bounds='all finite components with |c| <= 2^62', timeout=240, backends=('kissat', 'cadical', 'minisat'), core=(n == 3)))
        chk.add(e.ob('O2.length2_is_dot.V%df' % n, H, 'h_len2_is_dot_%d' % n, 'length2() == dot(v,v) bit for bit', unwind=n + 2, variant='ufar', defines=('UF_ARITH',), bounds='all bit patterns (FP operations uninterpreted on both sides)', timeout=120, backends=('z3', 'kissat', 'minisat')))
        chk.add(e.ob('O3.normalize_skeleton.V%df' % n, H, 'h_normalize_skeleton_%d' % n, 'normalize/normalized/Exc/NonNull: each component is x_i / length() with one shared length (division, not reciprocal); zero-length handling; Exc throws domain_error iff length()==0',
                     variant='ufar', defines=('UF_ARITH',), unwind=n + 2, bounds='all bit patterns (FP + - * / sqrt uninterpreted on both sides)', timeout=240, backends=('z3', 'kissat', 'minisat')))
    for n in (2, 3, 4):
        for rng, rname in ((0, 'tiny'), (1, 'normal')):
            for k in sorted({0, n - 1}):
                chk.add(e.ob('O1.length_axis_accuracy.V%df.%s.k%d' % (n, rname, k), H, 'h_len_axis_%d' % n, 'Vec%df::length() of a vector whose only non-zero component c sits at index %d is |c| to within 2 ulps on IEEE floats (%s): the dispatch between the sqrt path and lengthTiny loses no accuracy' % (n, k, 'c*c subnormal, underflowing, or below 2*FLT_MIN' if rng == 0 else 'c*c normal'),
                             defines=('AXIS_K=%d' % k, 'AXIS_RANGE=%d' % rng) + (('UF_DS',) if rng == 0 else ()), variant='ufds' if rng == 0 else 'exact', fallback='exact' if rng == 0 else None, fallback_kw=dict(defines=('AXIS_K=%d' % k, 'AXIS_RANGE=%d' % rng)), unwind=n + 2, bounds='all c with |c| < 2^-63' if rng == 0 else 'all c with 2^-63 <= |c| <= 2^62', timeout=300, backends=('kissat', 'cadical', 'minisat'),
                             tier='quick' if rng == 0 else 'thorough', core=(rng == 0)))
    chk.add(e.ob('O2.length_embed_2_in_3', H, 'h_len_dim_embed_23', 'Vec3(x,y,0).length() == Vec2(x,y).length() bit for bit (catches an edit to one per-dimension copy of the threshold / lengthTiny)', unwind=4, bounds='all float bit patterns',
                 timeout=600, backends=('kissat', 'cadical'), tier='thorough', core=False))
    chk.add(e.ob('O2.length_embed_3_in_4', H, 'h_len_dim_embed_34', 'Vec4(x,y,z,0).length() == Vec3(x,y,z).length() bit for bit', unwind=5, bounds='all float bit patterns', timeout=600, backends=('kissat', 'cadical'), tier='thorough', core=False))
    chk.add(e.ob('O3.division_kernel', H, 'h_div_kernel', '|x| <= l and l normal => |x/l| <= 1, finite, sign kept (the single division of normalize on IEEE floats)', bounds='all floats x, all normal l >= |x|', timeout=600,
                 backends=('kissat', 'cadical'), tier='thorough', core=False))
    # ---- engine C: contract of length() on its real body, and the normalize family over the reals
    ec = EngC(chk, 'veclen')                      # everything inlined: the real length() body incl. lengthTiny
    ek = EngC(chk, 'veclen', keep_calls=[contracts.LENGTH_RE]); ek.u.name = 'veclen_k'
    B = 2 ** 20
    for T in ('d', 'f'):
        for n in (2, 3, 4):
            def lc(I, O, X):
                l = O['ret']
                return [('length() >= 0', le(rz(0), l)), ('length()^2 == sum of squares', eq(rmul(l, l), norm2(I['v'])))]
            ec.add(Case('O4.length_contract.V%d.%s' % (n, T), 'w_len%d%s' % (n, T), [In('v', n)], lc, T=T, budget=240, timeout_ms=30000, core=(n == 3),
                        desc='Vec%d<%s>::length(): on EVERY path of the real body (sqrt branch, lengthTiny max-abs scaling branch, zero) the result is the non-negative l with l*l == x^2+y^2(+..)' % (n, 'double' if T == 'd' else 'float'),
                        bounds='all real vectors (no range restriction)'))
    for T in ('d', 'f'):
        for n in (2, 3, 4):
            def nrm(I, O, X):
                v = I['v']; r = O['r']; L = X.sqrt(norm2(v))
                return [('component %d: r_i * |v| == v_i' % i, eq(rmul(r[i], L), v[i])) for i in range(len(v))] + [('unit length', eq(norm2(r), rz(1)))]
            def nz(I): return [lt(rz(0), norm2(I['v']))]
            setup = lambda sym: contracts.install(sym, sym.m)
            for fn in ('normalize', 'normalized', 'normalizeExc', 'normalizedExc', 'normalizeNonNull', 'normalizedNonNull'):
                ek.add(Case('O4.%s.V%d.%s' % (fn, n, T), 'w_%s%d%s' % (fn, n, T), [In('v', n), Out('r', n)], nrm, T=T, pre=nz, setup=setup, nvalid=3,
                            desc='%s of a non-zero vector: parallel with positive factor 1/|v| (r_i*|v| == v_i) and of unit length, over the reals' % fn, bounds='all non-zero real vectors'))
            zero = {i: 0 for i in range(n)}
            ek.add(Case('O4.normalized_zero.V%d.%s' % (n, T), 'w_normalized%d%s' % (n, T), [In('v', n, fixed=zero), Out('r', n)], lambda I, O, X: veq(O['r'], [rz(0)] * len(I['v'])), T=T, setup=setup, nvalid=0,
                        desc='normalized() of the zero vector is the zero vector', bounds='the zero vector'))
            ek.add(Case('O4.normalizeExc_zero.V%d.%s' % (n, T), 'w_normalizeExc%d%s' % (n, T), [In('v', n, fixed=zero), Out('r', n)], lambda I, O, X: [('throws domain_error', O['exc'] == 1)], T=T, setup=setup, nvalid=0,
                        desc='normalizeExc() of the zero vector throws std::domain_error', bounds='the zero vector'))
    chk.assumptions += ['O3 skeleton: FP operations and sqrt are uninterpreted on both sides; what is decided is that all members of the family divide each component by one and the same length()',
                        'assumed lemma (not decided): for correctly rounded sqrt, length() >= max|x_i| when the squares neither overflow nor all underflow; with the thorough-tier division kernel this gives |component| <= 1 after normalisation',
                        'O4 normalize obligations use the contract of length() (l >= 0, l*l == sum of squares), itself decided by O4.length_contract on the real body']
    chk.outside += ['"within a few ulps" accuracy of length() and of the normalised vector', 'direct IEEE proof that normalize never produces NaN/inf (exact sqrtf + division: no verdict in 300 s)']
