"""C13 - Box/Interval are closed axis-aligned point sets; box transforms are tight."""
from vf.engb import EngB

H = 'c13/box.c'
TYPES = [('b3i', 'Box<Vec3<int>> (specialisation)', 3), ('b2i', 'Box<Vec2<int>> (specialisation)', 2), ('b4i', 'Box<Vec4<int>> (generic template)', 4),
         ('g3i', 'Box<derived Vec3<int>> (generic template)', 3), ('b3s', 'Box<Vec3<short>>', 3), ('ivi', 'Interval<int>', 1),
         ('b3f', 'Box<Vec3<float>>', 3), ('b2f', 'Box<Vec2<float>>', 2), ('ivf', 'Interval<float>', 1)]
OBS = [('empty_infinite', 'default/makeEmpty contain no point, makeInfinite contains every point'),
       ('intersects_pt', 'intersects(point) <=> min <= p <= max on every axis'),
       ('predicates', 'isEmpty / hasVolume / isInfinite as functions of min and max'),
       ('intersects_box', 'intersects(box) is symmetric and true exactly when the two sets share a point'),
       ('extend_pt', 'one extendBy(point) step from any reachable box gives the smallest box containing old members and the point'),
       ('extend_box', 'one extendBy(box) step from any reachable box gives the smallest box containing both'),
       ('size_center_axis', 'size and center as functions of min and max'),
       ('major_axis', 'majorAxis is the first axis of greatest size()')]


def build(chk):
    chk.jobs = 10     # every CBMC obligation races 2-3 back ends plus its witness twin: 16 jobs oversubscribe the 16 cores and push the slow float obligations past their timeouts
    e = EngB(chk, 'box', vopts=dict(nvec=120))
    e.variant('exact')
    e.variant('ufar', uf=['add', 'sub', 'div', 'mul'])
    for p, name, n in TYPES:
        for o, desc in OBS:
            flt = p.endswith('f')
            ufv = flt and o == 'size_center_axis'
            chk.add(e.ob('O1.%s.%s' % (p, o), H, 'h_%s_%s' % (p, o), '%s: %s' % (name, desc), unwind=2 * n + 2, timeout=400, variant='ufar' if ufv else 'exact', defines=('UF_ARITH',) if ufv else (),
                         bounds='all bit patterns of every component (floats: all finite values)' + ('; representation invariant: canonical empty or min<=max' if o in ('intersects_box', 'extend_pt', 'extend_box') else '')
                                + ('; integer size/center: bounds within half the type range (no overflow in max-min)' if o == 'size_center_axis' and not flt else ''),
                         backends=('minisat', 'kissat') if not flt else ('kissat', 'minisat', 'cadical')))
    for p, g, n in (('b3i', 'g3i', 3), ('b2i', 'g2i', 2), ('b3f', 'g3f', 3)):
        chk.add(e.ob('O2.%s_equals_generic' % p, H, 'h_%s_equals_generic' % p, 'Vec%d specialisation of Box behaves identically to the generic template (selected through a derived vector type), output for output' % n,
                     unwind=2 * n + 2, timeout=400, bounds='all bit patterns (floats: all finite values)', backends=('minisat', 'kissat')))
    chk.assumptions += ['one inductive step from an arbitrary box satisfying the representation invariant (canonical empty, or min<=max on every axis) covers extendBy histories of any length; the invariant is re-established by every step',
                        'the generic template is instantiated through a vector type derived from Vec3<T>/Vec2<T> defined in the wrapper TU']
    ex = EngB(chk, 'boxalgo', vopts=dict(nvec=60))
    ex.variant('ufar', uf=['add', 'sub', 'mul', 'div'], only=['w_xformf', 'w_xform_outf', 'w_affinef', 'w_affine_outf'])
    for nm in ('transform_pair_affine', 'transform_pair_p001', 'transform_pair_0p01', 'transform_pair_00p1', 'transform_pair_000q', 'transform_pair_general', 'affine_pair'):
        chk.add(ex.ob('O4.%s' % nm, 'c13/xform.c', 'h_' + nm, '%s: the out-parameter overload produces bit for bit what the value-returning overload returns, for every box and every matrix (affine and projective), whatever result held before' % nm.split('_')[0],
                      variant='ufar', unwind=20, timeout=300, extra=('--object-bits', '14'), core=(nm in ('transform_pair_affine', 'affine_pair')), tier=('quick' if nm in ('transform_pair_affine', 'affine_pair') else 'thorough'), bounds='all non-empty, non-infinite boxes, all matrices and previous-result bit patterns (FP + - * / uninterpreted on both sides)', backends=('z3', 'kissat', 'minisat')))
    ex.variant('exact', only=['w_xformf', 'w_xform_outf', 'w_affinef', 'w_affine_outf'])
    for col in ('0001', '1001', '0101', '0011', '0002'):
        for nm, d in (('xform_lattice_value', 'transform(box,m)'), ('xform_lattice_outparam', 'transform(box,m,result)')):
            chk.add(ex.ob('O4.%s.col%s' % (nm, col), 'c13/xform.c', 'h_%s_%s' % (nm, col), '%s, identity linear part, last column (%s), integer box corners: tight bound of the eight PROJECTED corner images on real IEEE floats (affine-detection test entry by entry; projective branch), whatever result held before' % (d, ','.join(col)),
                          variant='exact', unwind=20, timeout=300, bounds='box corners integers in [-2,2]^3, w > 0 at every corner, arbitrary previous contents of result', backends=('kissat', 'cadical', 'minisat')))
    from props import c13sym
    c13sym.build_obs(chk)
