"""C17 - scalar, root-finding and colour utilities equal their mathematical definitions."""
from fractions import Fraction
from vf.engb import EngB
from vf.engc import EngC
from vf.ll2c import PtrTy
from vf.ll2c import cname
from props.symutil import *
from props.c14 import asb

H = 'c17/fun.c'


def tname(e, func, idx):
    t = e.u.parsed().funcs['@' + func].params[idx][0]
    return 'T_' + cname(t.to.name)


def build(chk):
    e = EngB(chk, 'fun', extra=['ImathFun.cpp', 'ImathColorAlgo.cpp'], vopts=dict(nvec=300, skip=('w_succf', 'w_predf', 'w_succd', 'w_predd', 'w_solve_cubic_d', 'w_solve_cubic_f', 'w_norm_cubic_d', 'w_norm_cubic_double_root_d'),
             int_ranges={'w_divs': (1, 1000), 'w_mods': (1, 1000), 'w_divp': (1, 1000), 'w_modp': (1, 1000), 'w_cmpi': (-2 ** 29, 2 ** 29), 'w_cmpti': (-2 ** 29, 2 ** 29),
                         'w_absi': (-2 ** 29, 2 ** 29), 'w_iszeroi': (-2 ** 29, 2 ** 29), 'w_eq_abs_i': (-2 ** 29, 2 ** 29)}))
    e.variant('exact')
    e.variant('ub', ubcheck=True, only=['w_divs', 'w_mods', 'w_divp', 'w_modp'])
    e.variant('ufar', uf=['add', 'sub', 'mul', 'div', 'sqrt'])
    types = ('V3F=' + tname(e, 'w_rgb2packed3f', 0), 'C4F=' + tname(e, 'w_rgb2packed4f', 0), 'V3D=' + tname(e, 'w_hsv2rgb3d', 0), 'C4D=' + tname(e, 'w_hsv2rgb4d', 0))
    def ob(oid, func, desc, variant='exact', defines=(), **kw):
        return e.ob(oid, 'c17/divmod.c' if variant == 'ub' else H, func, desc, variant=variant, defines=types + tuple(defines), **kw)
    chk.add(ob('O1.floor_ceil_trunc_float', 'h_floor_ceil_trunc_f', 'floor/ceil/trunc(float) equal the mathematical functions for every float of magnitude below 2^31', bounds='all floats with |x| < 2^31', timeout=180, backends=('kissat', 'cadical', 'minisat')))
    chk.add(ob('O1.floor_ceil_trunc_double', 'h_floor_ceil_trunc_d', 'floor/ceil/trunc(double) for every double whose floor and ceil are representable as int', bounds='all doubles with |x| <= 2^31 - 1', timeout=600, backends=('kissat', 'cadical', 'minisat')))
    for b, tier in ((256, 'quick'), (4096, 'thorough')):
        chk.add(ob('O2.divs_mods.bound%d' % b, 'h_divs_mods', 'divs/mods are truncating division with x = y*divs + mods; no signed overflow on the path', variant='ub', defines=('BND=%d' % b,), bounds='|x|,|y| <= %d, y != 0 (full 32-bit range: no back end decides it)' % b, timeout=300, backends=('kissat', 'cadical', 'minisat'), tier=tier, core=(tier == 'quick')))
        chk.add(ob('O2.divp_modp.bound%d' % b, 'h_divp_modp', 'x = y*divp + modp with 0 <= modp < |y|; no signed overflow on the path', variant='ub', defines=('BND=%d' % b,), bounds='|x|,|y| <= %d, y != 0' % b, timeout=300, backends=('kissat', 'cadical', 'minisat'), tier=tier, core=(tier == 'quick')))
    chk.add(ob('O3.int_utils', 'h_int_utils', 'abs, sign, cmp, cmpt, iszero, equalWithAbsError, clamp on int follow their definitions', bounds='all ints with |a|,|b| < 2^30 (no overflow in a-b), all t,l,h', timeout=120))
    chk.add(ob('O3.float_sign_abs_iszero_clamp', 'h_float_sign_abs_clamp', 'abs, sign, iszero, clamp on float follow their definitions', bounds='all non-NaN floats', timeout=120, backends=('kissat', 'cadical', 'minisat')))
    chk.add(ob('O3.float_cmp', 'h_float_cmp', 'cmp(a,b) == order of a and b, through the real IEEE subtraction', bounds='all non-NaN float pairs', timeout=300, backends=('kissat', 'cadical', 'minisat')))
    chk.add(ob('O3.float_tolerances', 'h_float_tolerances', 'cmpt, equal, equalWithAbsError, equalWithRelError compare exactly the documented difference / product', variant='ufar', defines=('UF_ARITH',), bounds='all float bit patterns (FP operations uninterpreted on both sides)', timeout=120, backends=('z3', 'kissat', 'minisat')))
    chk.add(ob('O4.finite', 'h_finite', 'finitef / finited for all 2^32 / 2^64 bit patterns', bounds='all bit patterns', timeout=60))
    chk.add(ob('O4.succ_pred', 'h_succ_pred', 'succf/predf/succd/predd: inf and NaN returned unchanged, finite values forwarded to nextafter toward +-infinity (nextafter itself is glibc: uninterpreted)', bounds='all bit patterns', timeout=120))
    chk.add(ob('O5.lerp_ulerp', 'h_lerp_ulerp', 'lerp/ulerp are exactly the documented formulas (float and double)', variant='ufar', defines=('UF_ARITH',), bounds='all operand bit patterns (FP operations uninterpreted on both sides)', timeout=120, backends=('z3', 'kissat', 'minisat')))
    chk.add(ob('O6.packed_roundtrip_vec3', 'h_packed_roundtrip3', 'rgb2packed(packed2rgb(p)) preserves every 8-bit channel, Vec3<float>, all 2^32 p', bounds='all 2^32 packed colours', timeout=300, backends=('kissat', 'cadical', 'minisat')))
    chk.add(ob('O6.packed_roundtrip_color4', 'h_packed_roundtrip4', 'rgb2packed(packed2rgb(p)) == p, Color4<float>, all 2^32 p', bounds='all 2^32 packed colours', timeout=300, backends=('kissat', 'cadical', 'minisat')))
    chk.add(ob('O7.hsv_vec3_vs_color4', 'h_hsv_vec3_vs_color4', 'hsv2rgb_d / rgb2hsv_d: Vec3 and Color4 copies return identical results; alpha passes through', variant='ufar', defines=('UF_ARITH',), unwind=5, bounds='all operand bit patterns (FP arithmetic uninterpreted on both sides)', timeout=300, backends=('kissat', 'z3', 'minisat')))
    chk.add(ob('O8.root_solver_delegation', 'h_cubic_delegates', 'solveCubic(0,b,c,d) == solveQuadratic(b,c,d); solveQuadratic(0,b,c) == solveLinear(b,c): same count, same root bits', variant='ufar', defines=('UF_ARITH',), bounds='all coefficient bit patterns (FP arithmetic and sqrt uninterpreted on both sides)', timeout=300, backends=('z3', 'kissat', 'minisat')))
    chk.stubs += ['nextafter/nextafterf (glibc): uninterpreted function']
    # ---- engine C
    ec = EngC(chk, 'fun', extra=['ImathFun.cpp', 'ImathColorAlgo.cpp'])
    B = 2 ** 20
    def rng(vs): return [AND(R(v).n >= -B, R(v).n <= B) if not R(v).conc() else (abs(R(v).frac()) <= B) for v in vs]
    for T, S in (('d', 'd'), ('f', 'f')):
        def lin(I, O, X):
            n = O['ret']; a, b = I['a'], I['b']; x = O['x'][0]
            if not isinstance(n, int): return [('concrete count', False)]
            n = n - (1 << 32) if n >= (1 << 31) else n
            return [('count matches the coefficient pattern and the root satisfies a*x + b == 0',
                     OR(AND(n == 1, ne(a, rz(0)), eq(radd(rmul(a, x), b), rz(0))), AND(n == 0, eq(a, rz(0)), ne(b, rz(0))), AND(n == -1, eq(a, rz(0)), eq(b, rz(0)))))]
        ec.add(Case('O9.solveLinear.' + T, 'w_solve_linear_' + S, [Val('a'), Val('b'), Out('x', 1)], lin, T=T, pre=lambda I: rng([I['a'], I['b']]), desc='solveLinear: 1 root satisfying a*x+b=0, 0 roots, or -1 (identically zero)', bounds='all real coefficients in [-2^20, 2^20]'))
        def quad(I, O, X):
            n = O['ret']; a, b, c = I['a'], I['b'], I['c']; x = O['x']
            n = n - (1 << 32) if n >= (1 << 31) else n
            D = rsub(rmul(b, b), rmul(rz(4), rmul(a, c)))
            def root(v): return eq(radd(radd(rmul(a, rmul(v, v)), rmul(b, v)), c), rz(0))
            if n == 2: return [('D > 0', lt(rz(0), D)), ('x0 is a root', root(x[0])), ('x1 is a root', root(x[1])), ('roots distinct', ne(x[0], x[1]))]
            if n == 1: return [('one root: D == 0 or a == 0', OR(eq(D, rz(0)), eq(a, rz(0)))), ('x0 is a root', root(x[0]))]
            if n == 0: return [('no root: D < 0, or a == 0 and b == 0 != c', OR(AND(ne(a, rz(0)), lt(D, rz(0))), AND(eq(a, rz(0)), eq(b, rz(0)), ne(c, rz(0)))))]
            return [('all coefficients zero', AND(eq(a, rz(0)), eq(b, rz(0)), eq(c, rz(0))))]
        ec.add(Case('O9.solveQuadratic.' + T, 'w_solve_quadratic_' + S, [Val('a'), Val('b'), Val('c'), Out('x', 2)], quad, T=T, pre=lambda I: rng([I['a'], I['b'], I['c']]),
                    desc='solveQuadratic: root count by the sign of the discriminant; every returned root satisfies the polynomial; two roots are distinct', bounds='all real coefficients in [-2^20, 2^20]', budget=200))
        ec.add(Case('O10.lerp_of_lerpfactor.' + T, 'w_lerp_of_lerpfactor' + S, [Val('m'), Val('a'), Val('b')], lambda I, O, X: eq(O['ret'], I['m']), T=T,
                    pre=lambda I: rng([I['m'], I['a'], I['b']]) + [OR(le(rz(Fraction(1, B)), rsub(I['b'], I['a'])), le(rsub(I['b'], I['a']), rz(Fraction(-1, B))))],
                    desc='lerp(a, b, lerpfactor(m, a, b)) == m for a != b', bounds='m, a, b in [-2^20, 2^20], |b-a| >= 2^-20'))
        ec.add(Case('O10.lerpfactor_equal_ends.' + T, 'w_lerpfactor' + S, [Val('m'), Val('a'), Val('b')], lambda I, O, X: eq(O['ret'], rz(0)), T=T,
                    pre=lambda I: rng([I['m'], I['a']]) + [eq(I['a'], I['b'])], desc='lerpfactor(m, a, a) == 0 (no division by zero)', bounds='m, a in [-2^20, 2^20]', nvalid=0))
    chk.assumptions += ['lerp/ulerp/delegation/colour-overload obligations abstract + - * / (and sqrt) as uninterpreted functions on both sides: they decide "same formula", not its rounding',
                        'divs/mods/divp/modp: LLVM nsw flags are turned into overflow assertions (--ubcheck); the claim is for the stated bound only']
    # ---- solveNormalizedCubic (double): complex libm modelled exactly (props/contracts.py install_complex)
    from props import contracts as _ct
    TOLC = Fraction(1, 10 ** 6)
    def cubic_setup(sym):
        _ct.install_complex(sym); sym.check_divzero = False
    def near(a, b): return AND(le(rsub(a, b), rz(TOLC)), le(rsub(b, a), rz(TOLC)))
    def f3(x, r, s_, t): return radd(radd(radd(rmul(rmul(x, x), x), rmul(r, rmul(x, x))), rmul(s_, x)), t)
    def cubic_claims(r, s_, t, O, X, distinct=False):
        xs = O['x']; n = O['ret']
        y = X.free('y')
        cl = []
        for k in (1, 2, 3):
            isk = (n == k) if isinstance(n, int) else None
            if isk is None: raise Exception('symbolic root count')
            if not isk: continue
            for i in range(k):
                v = f3(xs[i], r, s_, t)
                cl.append(('x[%d] is a root (|f(x)| <= 1e-4)' % i, AND(le(v, rz(Fraction(1, 10 ** 4))), le(rneg(v), rz(Fraction(1, 10 ** 4))))))
            cl.append(('every real root is returned (to 1e-6): the reported count is the number of distinct real roots', IMPLIES(eq(f3(y, r, s_, t), rz(0)), OR(*[near(y, xs[i]) for i in range(k)]))))
            for i in range(k if distinct else 0):
                for j in range(i + 1, k):
                    cl.append(('returned roots %d and %d are distinct' % (i, j), NOT(near(xs[i], xs[j]))))
        if not cl: cl.append(('root count is 1, 2 or 3', False))
        return cl
    def dr_claim(I, O, X):
        b, c = I['b'], I['c']; a = rsub(c, rmul(rz(2), b)); d = radd(c, b)
        xs = O['x']
        if O['ret'] != 2: return [('a cubic with a simple and a double root reports 2 roots', False)]
        return [('the two returned values are the simple root c-2b and the double root c+b (to 1e-6), one each',
                 OR(AND(near(xs[0], a), near(xs[1], d)), AND(near(xs[0], d), near(xs[1], a))))]
    ec.add(Case('O9.solveNormalizedCubic_double_root.d', 'w_norm_cubic_double_root_d', [Val('b'), Val('c'), Out('x', 3)], dr_claim, T='d', setup=cubic_setup, nvalid=0, allow_divzero=True, budget=300, timeout_ms=30000,
                pre=lambda I: [AND(R(I['b']).n >= -4, R(I['b']).n <= 4), AND(R(I['c']).n >= -4, R(I['c']).n <= 4), OR(le(rz(Fraction(1, 8)), I['b']), le(I['b'], rz(Fraction(-1, 8))))],
                desc='solveNormalizedCubic on (x-(c-2b))(x-(c+b))^2, the family whose discriminant is exactly zero in floating point: reports 2 roots, returns the simple and the double root, both distinct',
                bounds='all real b, c in [-4,4] with |b| >= 1/8; complex sqrt/pow/division modelled by their mathematical definitions; sqrt(3) is the library\'s double constant (tolerances 1e-6 / 1e-4 absorb it)'))
    chk.outside += ['32-bit-wide div/mod identities (bounded to 2^8 quick / 2^12 thorough)', 'root accuracy commensurate with conditioning', 'solveNormalizedCubic outside the double-root family (a general-coefficient case was tried: nlsat decided one claim in 13 minutes and the rest not at all, so it is not registered)',
                    'hsv2rgb(rgb2hsv(c)) == c on the unit cube and integer-element colour scaling: not yet attempted', 'lerpfactor never overflows on IEEE floats (no verdict in 300 s)']
