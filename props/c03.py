"""C03 - half is a coherent numeric type: arithmetic, classes, limits, round(n)."""
from props import halfunit


def build(chk):
    u, ob = halfunit.prepare(chk)
    A = 'all operand bit patterns (2^16 x 2^16 resp. 2^16 x 2^32)'
    for name, sym in (('add', '+='), ('sub', '-='), ('mul', '*='), ('div', '/=')):
        chk.add(ob('O1.%s_half_rhs' % name, 'h_%s_h' % name, 'half %s half: result bits == f2h(h2f(a) op h2f(b)) for all 2^32 operand pairs' % sym, 'ufar', bounds=A, timeout=120, backends=('minisat', 'kissat', 'z3'), fallback='exact', fallback_kw=dict(timeout=900, backends=('kissat', 'cadical', 'minisat'))))
        chk.add(ob('O1.%s_float_rhs' % name, 'h_%s_f' % name, 'half %s float: result bits == f2h(h2f(a) op f) for all 2^48 operand pairs' % sym, 'ufar', bounds=A, timeout=120, backends=('minisat', 'kissat', 'z3'), fallback='exact', fallback_kw=dict(timeout=900, backends=('kissat', 'cadical', 'minisat'))))
        if name in ('add', 'sub'):
            chk.add(ob('O1.%s_half_rhs.ieee' % name, 'h_%s_h' % name, 'same, with the float operation bit-blasted (IEEE RNE) instead of uninterpreted' , 'uf', bounds=A, timeout=120))
    chk.add(ob('O2.unary_minus', 'h_neg', 'unary minus flips only the sign bit, all 2^16 patterns', 'exact', bounds='all 2^16 patterns'))
    chk.add(ob('O3.classification', 'h_class', 'exactly one class per pattern; isFinite/isNegative consistent; each predicate == float classification of the denoted value', 'exact', bounds='all 2^16 patterns', timeout=120))
    chk.add(ob('O4.limits_vs_all_patterns', 'h_limits', 'numeric_limits<half> min/max/lowest/denorm_min/epsilon/infinity/NaNs are the true extremes: compared against an arbitrary pattern', 'exact', bounds='all 2^16 patterns', timeout=120))
    chk.add(ob('O4.macros_and_constants', 'h_limit_macros', 'HALF_* macros convert through the real float->half to the extreme patterns; digit/exponent constants', 'exact', bounds='constants', timeout=120))
    chk.add(ob('O4.digits', 'h_digits', 'every integer |i|<=2048 converts exactly, 2049 does not; exponent range ends', 'exact', bounds='i in [-2049,2049] symbolic', timeout=120))
    chk.add(ob('O5.round_n', 'h_round', 'round(n): identity for n>=10; sign/finite class kept; low 10-n bits zero; within half a unit unless that would reach infinity (then truncation)', 'exact',
               bounds='all non-NaN patterns x all 2^32 n', timeout=120))
    chk.assumptions += ['O1 is compositional: the two conversions are uninterpreted pure callees here; their exact behaviour for all inputs is property C01',
                        'O3/O4 use ref_h2f (harness/half_ref.h) for the value a pattern denotes; C01 proves the real conversions equal it']
    chk.outside += ['text output followed by text input (libstdc++ num_put/num_get: locale facets, virtual dispatch, heap strings) - not encodable',
                    'halfFunction constructor fill loop (65,536 constant iterations calling a user functor): CBMC gave no verdict in 590 s / 22 GB - not decided']
    chk.not_encodable += ['halfFunction<T>::halfFunction fill loop', 'operator<< / operator>> text round trip through libstdc++']
