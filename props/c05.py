"""C05 - products, transposes, minors, determinants equal their algebraic definitions (engine C: all reals)."""
from vf.engc import EngC
from props.symutil import *

ALL = 'all real operand values (exact-arithmetic semantics of the compiled code; rounding outside the claim)'


def cases(T):
    cs = []
    def add(name, func, args, claim, **kw):
        kw.setdefault('bounds', ALL)
        cs.append(Case('%s.%s' % (name, T), func, args, claim, T=T, **kw))
    for n in (2, 3, 4):
        for sp in ('dot', 'dotop'):
            add('O1.%s%d' % (sp, n), 'w_%s%d{T}' % (sp, n), [In('a', n), In('b', n)], lambda I, O, X: eq(O['ret'], rdot(I['a'], I['b'])), desc='Vec%d dot (%s) == sum a_i b_i' % (n, sp))
    for sp in ('cross2', 'cross2op'):
        add('O1.' + sp, 'w_%s{T}' % sp, [In('a', 2), In('b', 2)], lambda I, O, X: eq(O['ret'], rsub(rmul(I['a'][0], I['b'][1]), rmul(I['a'][1], I['b'][0]))), desc='Vec2 cross == a.x b.y - a.y b.x')
    for sp in ('cross3', 'cross3op', 'cross3asg'):
        add('O1.' + sp, 'w_%s{T}' % sp, [In('a', 3), In('b', 3), Out('r', 3)], lambda I, O, X: veq(O['r'], cross3(I['a'], I['b'])), desc='Vec3 cross (right-handed), spelling ' + sp)
    def qmul(I, O, X):
        a = I['a']; b = I['b']     # layout r, v.x, v.y, v.z ; (r1 r2 - v1.v2, r1 v2 + v1 r2 + v1 x v2)
        r = rsub(rmul(a[0], b[0]), rdot(a[1:], b[1:]))
        cx = cross3(a[1:], b[1:])
        v = [radd(radd(rmul(a[0], b[1 + i]), rmul(a[1 + i], b[0])), cx[i]) for i in range(3)]
        return veq(O['r'], [r] + v, 'q')
    for sp in ('qmul', 'qmulasg'):
        add('O1.' + sp, 'w_%s{T}' % sp, [In('a', 4), In('b', 4), Out('r', 4)], qmul, desc='quaternion product (r1r2 - v1.v2, r1v2 + r2v1 + v1 x v2), spelling ' + sp)
    for n in (2, 3, 4):
        for sp in ['mmul', 'mmulasg'] + (['mmulstat', 'mmulstatb'] if n == 4 else []):
            add('O1.%s%d' % (sp, n), 'w_%s%d{T}' % (sp, n), [In('a', n * n), In('b', n * n), Out('r', n * n)],
                (lambda n: lambda I, O, X: meq(M(O['r'], n), mm(M(I['a'], n), M(I['b'], n))))(n), desc='Matrix%d%d product == sum_k a_ik b_kj, spelling %s' % (n, n, sp))
    def plain(nv, nm):
        return lambda I, O, X: veq(O['r'], vm(I['v'], M(I['m'], nm)))
    def homog(nv):
        def c(I, O, X):
            A = M(I['m'], nv + 1); h = vm(list(I['v']) + [rz(1)], A)
            return veq(O['r'], [rdiv(h[i], h[nv]) for i in range(nv)])
        return c
    def wnz(nv):
        def pre(I):
            A = M(I['m'], nv + 1); h = vm(list(I['v']) + [rz(1)], A); return [ne(h[nv], rz(0))]
        return pre
    def nzsample(nv):
        def f(rng, inp):
            return inp
        return f
    for sp in ('', 'asg'):
        add('O1.v2m22' + sp, 'w_v2m22%s{T}' % sp, [In('v', 2), In('m', 4), Out('r', 2)], plain(2, 2), desc='Vec2 * Matrix22 (row vector)')
        add('O1.v3m33' + sp, 'w_v3m33%s{T}' % sp, [In('v', 3), In('m', 9), Out('r', 3)], plain(3, 3), desc='Vec3 * Matrix33 plain')
        add('O1.v4m44' + sp, 'w_v4m44%s{T}' % sp, [In('v', 4), In('m', 16), Out('r', 4)], plain(4, 4), desc='Vec4 * Matrix44 plain')
        add('O1.v2m33' + sp, 'w_v2m33%s{T}' % sp, [In('v', 2), In('m', 9), Out('r', 2)], homog(2), pre=wnz(2), desc='Vec2 * Matrix33: append 1, divide by last homogeneous coordinate (w != 0)')
        add('O1.v3m44' + sp, 'w_v3m44%s{T}' % sp, [In('v', 3), In('m', 16), Out('r', 3)], homog(3), pre=wnz(3), desc='Vec3 * Matrix44: append 1, divide by w (w != 0)')
    add('O1.multVecMatrix33', 'w_multvec33{T}', [In('v', 2), In('m', 9), Out('r', 2)], homog(2), pre=wnz(2), desc='Matrix33::multVecMatrix == homogeneous transform with divide')
    add('O1.multVecMatrix44', 'w_multvec44{T}', [In('v', 3), In('m', 16), Out('r', 3)], homog(3), pre=wnz(3), desc='Matrix44::multVecMatrix == homogeneous transform with divide')
    def mdir(nv, nm):
        return lambda I, O, X: veq(O['r'], [rsum(rmul(I['v'][i], M(I['m'], nm)[i][j]) for i in range(nv)) for j in range(nv)])
    add('O1.multDirMatrix22', 'w_multdir22{T}', [In('v', 2), In('m', 4), Out('r', 2)], mdir(2, 2), desc='Matrix22::multDirMatrix')
    add('O1.multDirMatrix33', 'w_multdir33{T}', [In('v', 2), In('m', 9), Out('r', 2)], mdir(2, 3), desc='Matrix33::multDirMatrix ignores translation')
    add('O1.multDirMatrix44', 'w_multdir44{T}', [In('v', 3), In('m', 16), Out('r', 3)], mdir(3, 4), desc='Matrix44::multDirMatrix ignores translation')
    for n in (3, 4):
        add('O1.outerProduct%d' % n, 'w_outer%d{T}' % n, [In('a', n), In('b', n), Out('r', n * n)],
            (lambda n: lambda I, O, X: meq(M(O['r'], n), [[rmul(I['a'][i], I['b'][j]) for j in range(n)] for i in range(n)]))(n), desc='outerProduct[i][j] == a[i]*b[j] (%dx%d)' % (n, n))
    for n in (2, 3, 4):
        for sp in ('transposed', 'transpose'):
            add('O1.%s%d' % (sp, n), 'w_%s%d{T}' % (sp, n), [In('a', n * n), Out('r', n * n)], (lambda n: lambda I, O, X: meq(M(O['r'], n), transp(M(I['a'], n))))(n), desc='%s %dx%d' % (sp, n, n))
        add('O1.trace%d' % n, 'w_trace%d{T}' % n, [In('a', n * n)], (lambda n: lambda I, O, X: eq(O['ret'], rsum(M(I['a'], n)[i][i] for i in range(n))))(n), desc='trace')
        add('O1.determinant%d' % n, 'w_det%d{T}' % n, [In('a', n * n)], (lambda n: lambda I, O, X: eq(O['ret'], det(M(I['a'], n))))(n),
            desc='determinant == Leibniz/cofactor polynomial on every path (incl. zero-skipping branches of Matrix44)')
        add('O1.det_of_product%d' % n, 'w_detprod%d{T}' % n, [In('a', n * n), In('b', n * n)], (lambda n: lambda I, O, X: eq(O['ret'], rmul(det(M(I['a'], n)), det(M(I['b'], n)))))(n),
            desc='det(A*B) == det(A) det(B) through the real operator* and determinant()', path_timeout_ms=(300 if n == 4 else 3000), core=(n < 4), budget=(600 if n == 4 else 150), tier=('thorough' if n == 4 else 'quick'))
    for n in (3, 4):
        add('O1.det_of_transpose%d' % n, 'w_dettransp%d{T}' % n, [In('a', n * n)], (lambda n: lambda I, O, X: eq(O['ret'], det(M(I['a'], n))))(n), desc='det(transposed A) == det(A)')
        for r in range(n):
            for c in range(n):
                add('O1.minorOf%d.r%dc%d' % (n, r, c), 'w_minor%d{T}' % n, [In('a', n * n), Int(r), Int(c)], (lambda n, r, c: lambda I, O, X: eq(O['ret'], minor(M(I['a'], n), r, c)))(n, r, c),
                    desc='minorOf(%d,%d) == determinant of the complementary submatrix' % (r, c), nvalid=2)
        for k in range(n):
            add('O1.cofactor_row%d.r%d' % (n, k), 'w_cofrow%d{T}' % n, [In('a', n * n), Int(k)], (lambda n: lambda I, O, X: eq(O['ret'], det(M(I['a'], n))))(n), desc='cofactor expansion by minorOf along row %d == determinant' % k, nvalid=2)
            add('O1.cofactor_col%d.c%d' % (n, k), 'w_cofcol%d{T}' % n, [In('a', n * n), Int(k)], (lambda n: lambda I, O, X: eq(O['ret'], det(M(I['a'], n))))(n), desc='cofactor expansion by minorOf along column %d == determinant' % k, nvalid=2)
    # aliasing: the right operand is the object being assigned to (m *= m reads rows it has already overwritten if done in place)
    for n in (2, 3, 4):
        add('O1.mmul_self_assign%d' % n, 'w_mmulself%d{T}' % n, [In('a', n * n), Out('r', n * n)], (lambda n: lambda I, O, X: meq(M(O['r'], n), mm(M(I['a'], n), M(I['a'], n))))(n), desc='m *= m (aliased operands) == m*m, %dx%d' % (n, n))
    add('O1.multiply_static_all_aliased4', 'w_mmulstatself4{T}', [In('a', 16), Out('r', 16)], lambda I, O, X: meq(M(O['r'], 4), mm(M(I['a'], 4), M(I['a'], 4))), desc='Matrix44::multiply(t, t, t) with all three arguments the same object == t*t')
    add('O1.qmul_self_assign', 'w_qmulself{T}', [In('a', 4), Out('r', 4)], lambda I, O, X: qmul({'a': I['a'], 'b': I['a']}, O, X), desc='q *= q (aliased operands) == q*q')
    add('O1.cross3_self_assign', 'w_cross3self{T}', [In('a', 3), Out('r', 3)], lambda I, O, X: veq(O['r'], [rz(0)] * 3), desc='v %= v (aliased operands) == 0')
    add('O1.v3m33_row_of_same_matrix', 'w_v3m33self_row{T}', [In('m', 9), Out('r', 3)], lambda I, O, X: veq(O['r'], vm(M(I['m'], 3)[1], M(I['m'], 3))), desc='row *= m where row is a row of m itself (aliased) == row*m')
    add('O1.v4m44_row_of_same_matrix', 'w_v4m44self_row{T}', [In('m', 16), Out('r', 4)], lambda I, O, X: veq(O['r'], vm(M(I['m'], 4)[1], M(I['m'], 4))), desc='row *= m where row is a row of m itself (aliased) == row*m')
    import itertools
    for rs in itertools.combinations(range(3), 2):
        for cc in itertools.combinations(range(3), 2):
            add('O1.fastMinor3.r%d%dc%d%d' % (rs + cc), 'w_fastminor3{T}', [In('a', 9)] + [Int(x) for x in rs + cc],
                (lambda rs, cc: lambda I, O, X: eq(O['ret'], det([[M(I['a'], 3)[i][j] for j in cc] for i in rs])))(rs, cc), desc='Matrix33::fastMinor == 2x2 determinant of the selected rows/columns', nvalid=1)
    for rs in itertools.combinations(range(4), 3):
        for cc in itertools.combinations(range(4), 3):
            add('O1.fastMinor4.r%d%d%dc%d%d%d' % (rs + cc), 'w_fastminor4{T}', [In('a', 16)] + [Int(x) for x in rs + cc],
                (lambda rs, cc: lambda I, O, X: eq(O['ret'], det([[M(I['a'], 4)[i][j] for j in cc] for i in rs])))(rs, cc), desc='Matrix44::fastMinor == 3x3 determinant of the selected rows/columns', nvalid=1)
    return cs


def build(chk):
    e = EngC(chk, 'products')
    for T in ('d', 'f'):
        for c in cases(T):
            e.add(c)
    chk.assumptions += ['engine C: IEEE operations interpreted over the exact reals; homogeneous divides assume w != 0',
                        'link to the float code: exactness on the integer lattice (DESIGN 2.4, L1)']
    chk.assumptions.append('det(A*B)=det(A)det(B) for 4x4: decided compositionally in the quick tier (operator* == textbook product, determinant == textbook polynomial on all 16 zero-skipping paths; the polynomial identity itself is mathematics); the direct end-to-end query is thorough-only and budgeted (nlsat did not finish in 225 s)')
    chk.outside += ['rounding bound proportional to the sum of absolute products for non-lattice floats']
