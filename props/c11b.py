"""C11 cross-representation obligations: two wrappers evaluated on the same symbolic angles within one case."""
from vf.irsym import State, Ptr
from vf.symcase import Case, In, Out, Val, Int
from props.symutil import *
from props.c09 import euler_xyz


def run_second(X, func, args_vals, outname, n, esz):
    """symbolically execute another wrapper on the same Sym (shares sin/cos pairs) and return its output buffer"""
    st = State()
    argv = []
    for a in args_vals: argv.append(a)
    argv.append(Ptr(outname, 0))
    paths = list(X.S.call(func, argv, st))
    if len(paths) != 1: raise Exception('second function has %d paths' % len(paths))
    fs, _ = paths[0]
    return [fs.mem[(outname, i * esz)] for i in range(n)]


def build_obs(chk, ec, ORDERS):
    for T in ('d', 'f'):
        esz = 8 if T == 'd' else 4
        for name, o in ORDERS.items():
            if T == 'f' and chk.tier != 'thorough' and name not in ('XYZ', 'ZYXr', 'XZX', 'YXYr'): continue
            A3 = [Val('x'), Val('y'), Val('z'), Int(o)]
            def same33(I, O, X, o=o, T=T, esz=esz):
                if X.conc: return True        # replay of this composite is done through the first wrapper only
                R4 = run_second(X, 'w_euler_m44' + T, [I['x'], I['y'], I['z'], o], 'r4', 16, esz)
                return meq(M(O['r'], 3), [r[:3] for r in M(R4, 4)[:3]], 'm33 vs m44')
            ec.add(Case('O3.m33_equals_m44.%s.%s' % (name, T), 'w_euler_m33' + T, A3 + [Out('r', 9)], same33, T=T, desc='order %s: toMatrix33() == upper-left 3x3 of toMatrix44()' % name, bounds='all real angle triples', nvalid=0))
            def quat(I, O, X, o=o, T=T, esz=esz):
                if X.conc: return True
                R3 = run_second(X, 'w_euler_m33' + T, [I['x'], I['y'], I['z'], o], 'r3', 9, esz)
                return meq(M(O['r'], 3), M(R3, 3), 'quat vs matrix')
            ec.add(Case('O4.toQuat_same_rotation.%s.%s' % (name, T), 'w_euler_quat_m33' + T, A3 + [Out('r', 9)], quat, T=T, desc='order %s: toQuat().toMatrix33() == toMatrix33() (half-angle identities instantiated mechanically)' % name,
                        bounds='all real angle triples', nvalid=2, budget=200))
        ec.add(Case('O5.XYZ_equals_setEulerAngles.' + T, 'w_euler_m44' + T, [Val('x'), Val('y'), Val('z'), Int(0x0101), Out('r', 16)],
                    lambda I, O, X: meq(M(O['r'], 4), euler_xyz(X, [I['x'], I['y'], I['z']])), T=T, desc='Euler XYZ toMatrix44() == Rx Ry Rz == Matrix44::setEulerAngles (see C09)', bounds='all real angle triples'))
        ec.add(Case('O5.setEulerAngles_matrix.' + T, 'w_m44_seteuler' + T, [Val('x'), Val('y'), Val('z'), Out('r', 16)],
                    lambda I, O, X: meq(M(O['r'], 4), euler_xyz(X, [I['x'], I['y'], I['z']])), T=T, desc='Matrix44::setEulerAngles == Rx Ry Rz (same oracle as the XYZ order)', bounds='all real angle triples'))
