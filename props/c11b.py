"""C11 cross-representation obligations: two wrappers evaluated on the same symbolic angles within one case."""
from vf.irsym import State, Ptr
from vf.symcase import Case, In, Out, Val, Int
from props.symutil import *
from props.c09 import euler_xyz


def run_second(X, func, args_vals, outname, n, esz):
    """symbolically execute another wrapper on the same Sym (shares sin/cos pairs) and return its output buffer"""
    st = State()
    argv = []
    for a in args_vals: argv.append(a)
    argv.append(Ptr(outname, 0))
    paths = list(X.S.call(func, argv, st))
    if len(paths) != 1: raise Exception('second function has %d paths' % len(paths))
    fs, _ = paths[0]
    return [fs.mem[(outname, i * esz)] for i in range(n)]


def build_obs(chk, ec, ORDERS):
    for T in ('d', 'f'):
        esz = 8 if T == 'd' else 4
        for name, o in ORDERS.items():
            if T == 'f' and chk.tier != 'thorough' and name not in ('XYZ', 'ZYXr', 'XZX', 'YXYr'): continue
            A3 = [Val('x'), Val('y'), Val('z'), Int(o)]
            def same33(I, O, X, o=o, T=T, esz=esz):
                if X.conc: return True        # replay of this composite is done through the first wrapper only
                R4 = run_second(X, 'w_euler_m44' + T, [I['x'], I['y'], I['z'], o], 'r4', 16, esz)
                return meq(M(O['r'], 3), [r[:3] for r in M(R4, 4)[:3]], 'm33 vs m44')
            ec.add(Case('O3.m33_equals_m44.%s.%s' % (name, T), 'w_euler_m33' + T, A3 + [Out('r', 9)], same33, T=T, desc='order %s: toMatrix33() == upper-left 3x3 of toMatrix44()' % name, bounds='all real angle triples', nvalid=0))
            def quat(I, O, X, o=o, T=T, esz=esz):
                if X.conc: return True
                R3 = run_second(X, 'w_euler_m33' + T, [I['x'], I['y'], I['z'], o], 'r3', 9, esz)
                return meq(M(O['r'], 3), M(R3, 3), 'quat vs matrix')
            ec.add(Case('O4.toQuat_same_rotation.%s.%s' % (name, T), 'w_euler_quat_m33' + T, A3 + [Out('r', 9)], quat, T=T, desc='order %s: toQuat().toMatrix33() == toMatrix33() (half-angle identities instantiated mechanically)' % name,
                        bounds='all real angle triples', nvalid=2, budget=200))
        ec.add(Case('O5.XYZ_equals_setEulerAngles.' + T, 'w_euler_m44' + T, [Val('x'), Val('y'), Val('z'), Int(0x0101), Out('r', 16)],
                    lambda I, O, X: meq(M(O['r'], 4), euler_xyz(X, [I['x'], I['y'], I['z']])), T=T, desc='Euler XYZ toMatrix44() == Rx Ry Rz == Matrix44::setEulerAngles (see C09)', bounds='all real angle triples'))
        ec.add(Case('O5.setEulerAngles_matrix.' + T, 'w_m44_seteuler' + T, [Val('x'), Val('y'), Val('z'), Out('r', 16)],
                    lambda I, O, X: meq(M(O['r'], 4), euler_xyz(X, [I['x'], I['y'], I['z']])), T=T, desc='Matrix44::setEulerAngles == Rx Ry Rz (same oracle as the XYZ order)', bounds='all real angle triples'))


def build_extract(chk, ec, ORDERS):
    """extract() round trips: angles extracted from toMatrix33() of an arbitrary angle triple rebuild the same rotation -
    in general position (thorough) and with the middle angle pinned AT gimbal lock (quick), where the generic formulas degenerate."""
    import z3
    from props import contracts
    from vf.irsym import Rat
    for T in ('d', 'f'):
        esz = 8 if T == 'd' else 4
        for name, o in ORDERS.items():
            A3 = [Val('x'), Val('y'), Val('z'), Int(o)]
            def rt(I, O, X, o=o, T=T, esz=esz):
                if X.conc:
                    import ctypes
                    cty = ctypes.c_float if T == 'f' else ctypes.c_double
                    buf = (cty * 9)(); fn = getattr(X.lib, 'w_euler_m33' + T); fn.restype = None
                    fn(cty(float(I['x'].frac())), cty(float(I['y'].frac())), cty(float(I['z'].frac())), ctypes.c_int(o), buf)
                    from fractions import Fraction
                    return meq(M(O['r'], 3), M([Rat(Fraction(buf[i])) for i in range(9)], 3), 'roundtrip')
                R3 = run_second(X, 'w_euler_m33' + T, [I['x'], I['y'], I['z'], o], 'm0', 9, esz)
                return meq(M(O['r'], 3), M(R3, 3), 'roundtrip')
            for lock in (None, 1, -1):
                def setup(sym, lock=lock, o=o):
                    contracts.install(sym, sym.m); contracts.install_atan2(sym)
                    sym.check_divzero = False
                    if lock is not None:
                        sv, cv = sym.sincos(None, Rat(z3.Real('y')))
                        sym.axioms += [cv.n == 0, sv.n == lock] if not _repeated(o) else ([sv.n == 0, cv.n == lock])
                if T == 'f' and chk.tier != 'thorough' and name not in ('XYZ', 'ZYXr', 'XZX', 'YXYr'): continue
                tag = 'general' if lock is None else ('lock+' if lock > 0 else 'lock-')
                ec.add(Case('O6.extract33_roundtrip.%s.%s.%s' % (name, tag, T), 'w_euler_extract_m33_roundtrip' + T, A3 + [Out('r', 9)], rt, T=T, setup=setup, nvalid=0, allow_divzero=True,
                            budget=(600 if lock is None else 150), timeout_ms=(60000 if lock is None else 20000), tier=('thorough' if lock is None else 'quick'), core=(lock is not None),
                            desc='order %s: Euler(order).extract(e.toMatrix33()).toMatrix33() == e.toMatrix33() %s' % (name, 'for every angle triple' if lock is None else
                                 'with the middle angle AT gimbal lock (%s), every first and third angle' % (('cos = 0, sin = %+d' % lock) if not _repeated(o) else ('sin = 0, cos = %+d' % lock))),
                            bounds='all real first/third angles; atan2 modelled exactly through sin/cos of its result (atan2(0,0) = 0)'))


def _repeated(o):
    """Imath::Euler::Order encoding: bit 0x0010 set <=> the initial axis is repeated (XZX, XYX, ...)"""
    return bool(o & 0x0010)


def _axes(o):
    """Euler::angleOrder: (i, j, k) of an Order enumerator (bits: 0x2000/0x1000 initial axis, 0x0100 parity even)"""
    i = (o >> 12) & 3; even = bool(o & 0x0100)
    nxt = (i + 1) % 3; prv = (i - 1) % 3
    return (i, nxt, prv) if even else (i, prv, nxt)


def lock_matrix(o, sigma):
    """family of ALL rotation matrices at gimbal lock for order o and sign sigma, parametrised by a unit pair (c, s):
    non-repeated orders lock when M[i][k] = +-1, repeated ones when M[i][i] = +-1; the remaining 2x2 block is a planar
    rotation or reflection, whichever makes det M = +1.  returns fn(params)->9 entries"""
    from fractions import Fraction
    i, j, k = _axes(o)
    col = i if _repeated(o) else k
    rows = [r for r in range(3) if r != i]; cols = [c for c in range(3) if c != col]
    def build(c, s, eps):
        m = [[rz(0)] * 3 for _ in range(3)]
        m[i][col] = rz(sigma)
        m[rows[0]][cols[0]] = c; m[rows[0]][cols[1]] = s
        m[rows[1]][cols[0]] = rmul(rz(-eps), s); m[rows[1]][cols[1]] = rmul(rz(eps), c)
        return m
    def detc(m):
        f = lambda v: R(v).frac()
        return (f(m[0][0]) * (f(m[1][1]) * f(m[2][2]) - f(m[1][2]) * f(m[2][1])) - f(m[0][1]) * (f(m[1][0]) * f(m[2][2]) - f(m[1][2]) * f(m[2][0]))
                + f(m[0][2]) * (f(m[1][0]) * f(m[2][1]) - f(m[1][1]) * f(m[2][0])))
    eps = 1 if detc(build(rz(1), rz(0), 1)) == 1 else -1
    assert detc(build(rz(Fraction(3, 5)), rz(Fraction(4, 5)), eps)) == 1
    return lambda ps: [e for row in build(ps[0], ps[1], eps) for e in row]


def build_extract_lock(chk, ec, ORDERS):
    """extract() from EXACT gimbal-lock matrices (entries exactly 0 and +-1 where the lock puts them: the case a float angle of
    pi/2 never produces): round trip through the 3x3 and the 4x4 overload, and both overloads give the same angles."""
    from props import contracts
    def setup(sym):
        contracts.install(sym, sym.m); contracts.install_atan2(sym); sym.check_divzero = False
    for T in ('d', 'f'):
        for name, o in ORDERS.items():
            if T == 'f' and chk.tier != 'thorough' and name not in ('XYZ', 'ZYXr', 'XZX', 'YXYr'): continue
            for sigma in (1, -1):
                fam = lock_matrix(o, sigma)
                MIN = In('m', 9, param=(2, fam))
                pre = lambda I: [eq(radd(rmul(I['m_p'][0], I['m_p'][0]), rmul(I['m_p'][1], I['m_p'][1])), rz(1))]
                def samp(rng, inp):
                    from fractions import Fraction
                    c, s_ = rng.choice([(Fraction(3, 5), Fraction(4, 5)), (Fraction(-5, 13), Fraction(12, 13)), (Fraction(1), Fraction(0)), (Fraction(0), Fraction(-1)), (Fraction(-8, 17), Fraction(-15, 17))])
                    inp['m_p'] = [c, s_]; return inp
                tag = '%s.lock%s.%s' % (name, '+' if sigma > 0 else '-', T)
                bnd = 'every rotation matrix with M[%d][%d] == %+d exactly (unit pair (c,s) arbitrary); atan2 modelled exactly through sin/cos of its result, atan2(0,0) = 0' % (_axes(o)[0], _axes(o)[0] if _repeated(o) else _axes(o)[2], sigma)
                for w, nm in (('33', 'Matrix33'), ('44', 'Matrix44')):
                    ec.add(Case('O6.extract%s_lock_matrix.%s' % (w, tag), 'w_euler_extract%s_rt%s' % (w, T), [MIN, Int(o), Out('r', 9)], lambda I, O, X: meq(M(O['r'], 3), M(I['m'], 3), 'roundtrip'),
                                T=T, setup=setup, pre=pre, sample=samp, nvalid=3, allow_divzero=True, budget=150, timeout_ms=20000,
                                desc='order %s: extract(%s) of a matrix exactly at gimbal lock, converted back, is that matrix' % (name, nm), bounds=bnd))
                def same(I, O, X, o=o, T=T):
                    if X.conc:
                        import ctypes
                        from fractions import Fraction
                        cty = ctypes.c_float if T == 'f' else ctypes.c_double
                        mb = (cty * 9)(*[float(R(v).frac()) for v in I['m']]); ab = (cty * 3)()
                        fn = getattr(X.lib, 'w_euler_extract44_angles' + T); fn.restype = None; fn(mb, ctypes.c_int(o), ab)
                        B4 = [Rat(Fraction(ab[i])) for i in range(3)]
                    else:
                        st = State(); esz = 8 if T == 'd' else 4
                        for idx, v in enumerate(I['m']): st.mem[('m44in', idx * esz)] = R(v)
                        paths = list(X.S.call('w_euler_extract44_angles' + T, [Ptr('m44in', 0), o, Ptr('a44', 0)], st))
                        if len(paths) != 1: raise Exception('extract(Matrix44) has %d paths here' % len(paths))
                        X.extra += [c for c in paths[0][0].pc]
                        B4 = [paths[0][0].mem[('a44', q * esz)] for q in range(3)]
                    cl = []
                    for q in range(3):
                        s3, c3 = X.sincos(O['a'][q]); s4, c4 = X.sincos(B4[q])
                        cl += [('angle %d: same sine' % q, eq(s3, s4)), ('angle %d: same cosine' % q, eq(c3, c4))]
                    return cl
                ec.add(Case('O6.extract33_44_same_angles.%s' % tag, 'w_euler_extract33_angles%s' % T, [MIN, Int(o), Out('a', 3)], same, T=T, setup=setup, pre=pre, sample=samp, nvalid=0, allow_divzero=True,
                            budget=150, timeout_ms=20000, desc='order %s: extract(Matrix33) and extract(Matrix44) give the same angles (same sine and cosine each) at gimbal lock' % name, bounds=bnd))
