"""Contracts substituted for out-of-line callees in engine C (compositional reasoning).
Vec{2,3,4}<T>::length(): returns the non-negative real l with l*l == sum of squares.  The contract itself is decided
for the real body of length() on ALL its paths (sqrt branch and the lengthTiny scaling branch) by property C08's
engine-C obligation 'O4.length_contract'; every property that uses it lists it under assumptions."""
import re
import z3
from vf.irsym import Rat, rz, radd, rmul, isconst

LENGTH_RE = r'^_ZNK9Imath_3_2\d*4Vec[234]I[fd]E6lengthEv$'


def install(sym, module):
    for name in module.funcs:
        n = name[1:]
        m = re.match(r'^_ZNK9Imath_3_2\d*4Vec([234])I([fd])E6lengthEv$', n)
        if m:
            dim = int(m.group(1)); esz = 4 if m.group(2) == 'f' else 8
            sym.contracts[n] = (lambda dim, esz: lambda S, st, args: length_contract(S, st, args, dim, esz))(dim, esz)


def length_contract(S, st, args, dim, esz):
    this = args[0]
    comps = [st.mem[(this.obj, this.off + i * esz)] for i in range(dim)]
    l2 = rz(0)
    for c in comps: l2 = radd(l2, rmul(c, c))
    if l2.conc():
        import math
        from fractions import Fraction
        q = l2.frac()
        r = math.isqrt(q.numerator * q.denominator)
        if r * r == q.numerator * q.denominator: return Rat(Fraction(r, q.denominator))
        if getattr(S, 'approx_sqrt', False): return Rat(Fraction(math.sqrt(float(q))))
        y = S.newreal('len'); st.pc += [y > 0, y * y * q.denominator == q.numerator]; st.wit.append((l2, y))   # irrational: exact algebraic witness
        return Rat(y)
    y = S.newreal('len')
    st.pc += [y >= 0, y * y * l2.d == l2.n]
    st.wit.append((l2, y))
    return Rat(y)


def atan2_model(S, st, args):
    """exact model of t = atan2(y, x) as far as sin(t), cos(t) are concerned (all the callers do with the angle is feed it, possibly
    negated, to sin/cos):  (x,y) != (0,0):  sin t * h == y, cos t * h == x with h = sqrt(x^2+y^2) > 0;   atan2(0,0) == 0 (C11/IEEE).
    The angle itself is a fresh real; its sin/cos pair is registered so later sin/cos calls on it (or on its negation) find it."""
    import math
    from fractions import Fraction
    from vf.irsym import R
    y, x = R(args[0]), R(args[1])
    if y.conc() and x.conc():
        fy, fx = y.frac(), x.frac()
        if fy == 0 and fx >= 0: return Rat(Fraction(0))
        if getattr(S, 'approx_sqrt', False): return Rat(Fraction(math.atan2(float(fy), float(fx))))
    t = S.newreal('ang'); h = S.newreal('hyp')
    sv, cv = S.sincos(st, Rat(t))
    sv, cv = sv.n, cv.n
    yn, yd, xn, xd = y.n, y.d, x.n, x.d
    nz = z3.Or(xn != 0, yn != 0) if not (x.conc() and y.conc()) else bool(x.frac() != 0 or y.frac() != 0)
    some = z3.And(h > 0, h * h * (yd * yd) * (xd * xd) == yn * yn * (xd * xd) + xn * xn * (yd * yd), sv * h * yd == yn, cv * h * xd == xn)
    if getattr(S, 'atan2_angle_bound', False):
        some = z3.And(some, t * t >= sv * sv)      # |sin t| <= |t| for every real t: the only numeric link between the angle and its sine (opt-in: it costs nlsat dearly)
    none = z3.And(t == 0, sv == 0, cv == 1)
    if nz is True: st.pc.append(some)
    elif nz is False: st.pc.append(none)
    else: st.pc += [z3.Implies(nz, some), z3.Implies(z3.Not(nz), none)]
    return Rat(t)


def install_atan2(sym):
    sym.calls['atan2'] = atan2_model


# ---------------------------------------------------------------------------------------------------------------------------
# Complex arithmetic reached from ImathRoots.h's cubic solver (libstdc++ lowers std::pow(complex,T) to clog/exp/cos/sin, and complex
# * and / to __muldc3 / __divdc3).  Models over the exact reals; each is the mathematical definition of the C99 function.
def install_complex(sym):
    import math
    from fractions import Fraction
    from vf.irsym import R, rsub, rdiv, rneg
    THIRD = Fraction(float.fromhex('0x1.5555555555555p-2'))
    def agg(a, b): return ('aggv', [a, b])
    def zero(x):
        """identically zero (as a polynomial in the inputs)?"""
        x = R(x)
        if x.conc(): return x.frac() == 0
        return z3.is_true(z3.simplify(z3.simplify(x.n, som=True) == 0))
    def sign_of(S, st, x):
        """+1 / -1 / 0 when the path condition fixes the sign of x, else None"""
        x = R(x)
        if x.conc(): return (x.frac() > 0) - (x.frac() < 0)
        pos = S.feasible(st, x.n * x.d > 0); neg = S.feasible(st, x.n * x.d < 0); zer = S.feasible(st, x.n == 0)
        if pos and not neg and not zer: return 1
        if neg and not pos and not zer: return -1
        if zer and not pos and not neg: return 0
        return None
    def csqrt(S, st, args):
        a, b = R(args[0]), R(args[1])
        if not (b.conc() and b.frac() == 0): raise Exception('csqrt model: imaginary part must be the constant 0 here')
        if zero(a) or sign_of(S, st, a) == 0: return agg(rz(0), rz(0))
        if a.conc():
            q = a.frac(); w = S.newreal('csq'); st.pc += [w >= 0, w * w == abs(q)]
            return agg(Rat(w), rz(0)) if q >= 0 else agg(rz(0), Rat(w))
        w = S.newreal('csq'); nn = a.n * a.d >= 0
        st.pc += [w >= 0, z3.If(nn, w * w * a.d == a.n, w * w * a.d == -a.n)]
        zero_ = z3.RealVal(0)
        return agg(Rat(z3.If(nn, w, zero_)), Rat(z3.If(nn, zero_, w)))
    def clog(S, st, args):
        a, b = R(args[0]), R(args[1])
        L = S.newreal('lnmod'); A = S.newreal('carg')
        S.clogs = getattr(S, 'clogs', {}); S.clogs[str(L)] = (a, b); S.clogs[str(A)] = (a, b)
        return agg(Rat(L), Rat(A))
    def _match(S, x):
        """x == v * (double nearest 1/3) for a clog output v ?  (the constant is treated as exactly 1/3: relative effect 2e-17 * |ln|z||)"""
        x = R(x)
        for name, (a, b) in getattr(S, 'clogs', {}).items():
            v = z3.Real(name)
            if z3.is_true(z3.simplify(x.n == v * z3.RealVal(str(THIRD)) * x.d)) or z3.is_true(z3.simplify(x.n * THIRD.denominator == v * THIRD.numerator * x.d)): return name, a, b
        return None
    def cexp(S, st, args):
        mt = _match(S, args[0])
        if mt is None: raise Exception('exp model: argument is not ln|z|/3 of a recorded clog')
        name, a, b = mt
        if zero(b) and sign_of(S, st, a) in (1, -1):
            sg = sign_of(S, st, a); m = S.newreal('cbrtmod'); st.pc += [m > 0, m * m * m * a.d == sg * a.n]
            return Rat(m)
        m = S.newreal('cbrtmod'); st.pc += [m >= 0, (m * m * m) * (m * m * m) * (a.d * a.d) * (b.d * b.d) == a.n * a.n * (b.d * b.d) + b.n * b.n * (a.d * a.d)]
        S.cmods = getattr(S, 'cmods', {}); S.cmods[(str(a.n), str(a.d), str(b.n), str(b.d))] = m
        return Rat(m)
    def cdir(S, st, x):
        mt = _match(S, x)
        if mt is None: return None
        name, a, b = mt
        key = (str(a.n), str(a.d), str(b.n), str(b.d))
        S.cdirs = getattr(S, 'cdirs', {})
        if key not in S.cdirs and zero(b) and sign_of(S, st, a) in (1, -1):
            # z real: arg z is 0 or pi, so the principal cube-root direction is 1 or 1/2 + i sqrt(3)/2
            if sign_of(S, st, a) == 1: S.cdirs[key] = (z3.RealVal(1), z3.RealVal(0))
            else:
                w3 = S.newreal('sqrt3'); st.pc += [w3 > 0, w3 * w3 == 3]
                S.cdirs[key] = (z3.RealVal(1) / 2, w3 / 2)
        if key not in S.cdirs:
            C = S.newreal('c3'); Sn = S.newreal('s3'); h = S.newreal('zmod')
            # (C + i Sn)^3 == z/|z|, principal: arg/3 in (-pi/3, pi/3]  <=>  C >= 1/2 and not (C == 1/2 and Sn < 0);  z == 0: arg = 0
            nz = z3.Or(a.n != 0, b.n != 0)
            st.pc += [C * C + Sn * Sn == 1, h >= 0, h * h * (a.d * a.d) * (b.d * b.d) == a.n * a.n * (b.d * b.d) + b.n * b.n * (a.d * a.d),
                      z3.Implies(nz, z3.And(2 * C >= 1, z3.Not(z3.And(2 * C == 1, Sn < 0)), h * (C * C * C - 3 * C * Sn * Sn) * a.d == a.n, h * (3 * C * C * Sn - Sn * Sn * Sn) * b.d == b.n)),
                      z3.Implies(z3.Not(nz), z3.And(C == 1, Sn == 0))]
            S.cdirs[key] = (C, Sn)
        return S.cdirs[key]
    def ccos(S, st, args):
        r = cdir(S, st, args[0])
        if r is None: return S.sincos(st, args[0])[1]
        return Rat(r[0])
    def csin(S, st, args):
        r = cdir(S, st, args[0])
        if r is None: return S.sincos(st, args[0])[0]
        return Rat(r[1])
    def cpow(S, st, args):
        x, y = R(args[0]), R(args[1])
        if not (y.conc() and y.frac() == THIRD): raise Exception('pow model: exponent must be T(1)/T(3)')
        c = S.newreal('cbrt'); st.pc += [c >= 0, c * c * c * x.d == x.n]       # callers pass x >= 0 (checked by a feasibility query on x < 0)
        if S.feasible(st, x.n * x.d < 0): raise Exception('pow model: negative base reachable')
        return Rat(c)
    def divdc3(S, st, args):
        a, b, c, d = [R(v) for v in args]
        den = radd(rmul(c, c), rmul(d, d))
        st.pc.append(den.n != 0)
        return agg(rdiv(radd(rmul(a, c), rmul(b, d)), den), rdiv(rsub(rmul(b, c), rmul(a, d)), den))
    def muldc3(S, st, args):
        a, b, c, d = [R(v) for v in args]
        return agg(rsub(rmul(a, c), rmul(b, d)), radd(rmul(a, d), rmul(b, c)))
    sym.calls.update({'csqrt': csqrt, 'clog': clog, 'exp': cexp, 'cos': ccos, 'sin': csin, 'pow': cpow, '__divdc3': divdc3, '__muldc3': muldc3})
