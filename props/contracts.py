"""Contracts substituted for out-of-line callees in engine C (compositional reasoning).
Vec{2,3,4}<T>::length(): returns the non-negative real l with l*l == sum of squares.  The contract itself is decided
for the real body of length() on ALL its paths (sqrt branch and the lengthTiny scaling branch) by property C08's
engine-C obligation 'O4.length_contract'; every property that uses it lists it under assumptions."""
import re
import z3
from vf.irsym import Rat, rz, radd, rmul, isconst

LENGTH_RE = r'^_ZNK9Imath_3_2\d*4Vec[234]I[fd]E6lengthEv$'


def install(sym, module):
    for name in module.funcs:
        n = name[1:]
        m = re.match(r'^_ZNK9Imath_3_2\d*4Vec([234])I([fd])E6lengthEv$', n)
        if m:
            dim = int(m.group(1)); esz = 4 if m.group(2) == 'f' else 8
            sym.contracts[n] = (lambda dim, esz: lambda S, st, args: length_contract(S, st, args, dim, esz))(dim, esz)


def length_contract(S, st, args, dim, esz):
    this = args[0]
    comps = [st.mem[(this.obj, this.off + i * esz)] for i in range(dim)]
    l2 = rz(0)
    for c in comps: l2 = radd(l2, rmul(c, c))
    if l2.conc():
        import math
        from fractions import Fraction
        q = l2.frac()
        r = math.isqrt(q.numerator * q.denominator)
        if r * r == q.numerator * q.denominator: return Rat(Fraction(r, q.denominator))
        if getattr(S, 'approx_sqrt', False): return Rat(Fraction(math.sqrt(float(q))))
        y = S.newreal('len'); st.pc += [y > 0, y * y * q.denominator == q.numerator]; st.wit.append((l2, y))   # irrational: exact algebraic witness
        return Rat(y)
    y = S.newreal('len')
    st.pc += [y >= 0, y * y * l2.d == l2.n]
    st.wit.append((l2, y))
    return Rat(y)


def atan2_model(S, st, args):
    """exact model of t = atan2(y, x) as far as sin(t), cos(t) are concerned (all the callers do with the angle is feed it, possibly
    negated, to sin/cos):  (x,y) != (0,0):  sin t * h == y, cos t * h == x with h = sqrt(x^2+y^2) > 0;   atan2(0,0) == 0 (C11/IEEE).
    The angle itself is a fresh real; its sin/cos pair is registered so later sin/cos calls on it (or on its negation) find it."""
    import math
    from fractions import Fraction
    from vf.irsym import R
    y, x = R(args[0]), R(args[1])
    if y.conc() and x.conc():
        fy, fx = y.frac(), x.frac()
        if fy == 0 and fx >= 0: return Rat(Fraction(0))
        if getattr(S, 'approx_sqrt', False): return Rat(Fraction(math.atan2(float(fy), float(fx))))
    t = S.newreal('ang'); h = S.newreal('hyp')
    sv, cv = S.sincos(st, Rat(t))
    sv, cv = sv.n, cv.n
    yn, yd, xn, xd = y.n, y.d, x.n, x.d
    nz = z3.Or(xn != 0, yn != 0) if not (x.conc() and y.conc()) else bool(x.frac() != 0 or y.frac() != 0)
    some = z3.And(h > 0, h * h * (yd * yd) * (xd * xd) == yn * yn * (xd * xd) + xn * xn * (yd * yd), sv * h * yd == yn, cv * h * xd == xn)
    none = z3.And(t == 0, sv == 0, cv == 1)
    if nz is True: st.pc.append(some)
    elif nz is False: st.pc.append(none)
    else: st.pc += [z3.Implies(nz, some), z3.Implies(z3.Not(nz), none)]
    return Rat(t)


def install_atan2(sym):
    sym.calls['atan2'] = atan2_model
