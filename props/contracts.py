"""Contracts substituted for out-of-line callees in engine C (compositional reasoning).
Vec{2,3,4}<T>::length(): returns the non-negative real l with l*l == sum of squares.  The contract itself is decided
for the real body of length() on ALL its paths (sqrt branch and the lengthTiny scaling branch) by property C08's
engine-C obligation 'O4.length_contract'; every property that uses it lists it under assumptions."""
import re
import z3
from vf.irsym import Rat, rz, radd, rmul, isconst

LENGTH_RE = r'^_ZNK9Imath_3_2\d*4Vec[234]I[fd]E6lengthEv$'


def install(sym, module):
    for name in module.funcs:
        n = name[1:]
        m = re.match(r'^_ZNK9Imath_3_2\d*4Vec([234])I([fd])E6lengthEv$', n)
        if m:
            dim = int(m.group(1)); esz = 4 if m.group(2) == 'f' else 8
            sym.contracts[n] = (lambda dim, esz: lambda S, st, args: length_contract(S, st, args, dim, esz))(dim, esz)


def length_contract(S, st, args, dim, esz):
    this = args[0]
    comps = [st.mem[(this.obj, this.off + i * esz)] for i in range(dim)]
    l2 = rz(0)
    for c in comps: l2 = radd(l2, rmul(c, c))
    if l2.conc():
        import math
        from fractions import Fraction
        q = l2.frac()
        r = math.isqrt(q.numerator * q.denominator)
        if r * r == q.numerator * q.denominator: return Rat(Fraction(r, q.denominator))
        if getattr(S, 'approx_sqrt', False): return Rat(Fraction(math.sqrt(float(q))))
        y = S.newreal('len'); st.pc += [y > 0, y * y * q.denominator == q.numerator]; st.wit.append((l2, y))   # irrational: exact algebraic witness
        return Rat(y)
    y = S.newreal('len')
    st.pc += [y >= 0, y * y * l2.d == l2.n]
    st.wit.append((l2, y))
    return Rat(y)
