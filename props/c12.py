"""C12 - matrix factorisations recompose to their input with structured factors (the decidable part)."""
import re
from fractions import Fraction
import z3
from vf.engc import EngC
from vf.engb import EngB
from vf.irsym import Rat
from props.symutil import *
from props.c09 import euler_xyz, emb, T33, H31, rot2, T44, H3
from props import contracts

KEEP = [r'extractSHRT', r'extractAndRemoveScalingAndShear', contracts.LENGTH_RE]


def install(sym):
    """opaque callees: extractSHRT / extractAndRemoveScalingAndShear write ARBITRARY factors and return an arbitrary bool.
    The recomposition wrappers are then verified for every possible factor value (sound over-approximation)."""
    contracts.install(sym, sym.m)
    sym.contract_log = []
    for name in sym.m.funcs:
        n = name[1:]
        if 'extractSHRT' in n:
            m33 = 'Matrix33' in n
            esz = 4 if ('IfE' in n or 'IfT' in n or n.count('If')) and 'Id' not in n else 8
            def c(S, st, args, m33=m33, n=n):
                esz_ = 4 if re.search(r'extractSHRTIf', n) else 8
                S.fresh += 1; k = S.fresh
                out = {}
                ptrs = [a for a in args if hasattr(a, 'obj')]
                # args: mat, scl, shr, rot, tran [, exc / order]
                dims = [2, 1, 1, 2] if m33 else [3, 3, 3, 3]
                names = ['scl', 'shr', 'rot', 'tran']
                for nm, p, d in zip(names, ptrs[1:5], dims):
                    vs = [z3.Real('%s%d_%d' % (nm, k, i)) for i in range(d)]
                    for i, v in enumerate(vs): st.mem[(p.obj, p.off + i * esz_)] = Rat(v)
                    out[nm] = [Rat(v) for v in vs]
                b = z3.Bool('shrt_ok_%d' % k); out['ok'] = b
                S.contract_log.append(out)
                return b
            sym.contracts[n] = c
        elif 'extractAndRemoveScalingAndShear' in n:
            m33 = 'Matrix33' in n
            def c2(S, st, args, m33=m33, n=n):
                esz_ = 4 if re.search(r'ScalingAndShearIf', n) else 8
                S.fresh += 1; k = S.fresh
                ptrs = [a for a in args if hasattr(a, 'obj')]
                dim = 3 if m33 else 4; lin = 2 if m33 else 3
                out = {'M': {}}
                for i in range(lin):
                    for j in range(lin):
                        v = z3.Real('er%d_%d%d' % (k, i, j)); st.mem[(ptrs[0].obj, ptrs[0].off + (dim * i + j) * esz_)] = Rat(v); out['M'][(i, j)] = Rat(v)
                for nm, p, d in zip(['scl', 'shr'], ptrs[1:3], [2, 1] if m33 else [3, 3]):
                    for i in range(d): st.mem[(p.obj, p.off + i * esz_)] = Rat(z3.Real('%s%d_%d' % (nm, k, i)))
                b = z3.Bool('er_ok_%d' % k); out['ok'] = b
                S.contract_log.append(out)
                return b
            sym.contracts[n] = c2


def cases(T):
    cs = []
    def add(name, func, args, claim, **kw):
        kw.setdefault('setup', install); kw.setdefault('nvalid', 0)
        kw.setdefault('bounds', 'all real input matrices and, for the opaque decomposition callee, ALL factor values and both outcomes (success / failure)')
        cs.append(Case('%s.%s' % (name, T), func, args, claim, T=T, **kw))
    def native33(X, fn):
        """native confirmation on a canonical well-conditioned matrix S*H*R*T: the real wrapper vs shear*rotation*translation
        of the factors the real extractSHRT returns (the claim quantifies over all factor values, so any witness will do)"""
        import ctypes, math
        cty = ctypes.c_float if X.T == 'f' else ctypes.c_double
        sx, sy, h, r, tx, ty = 2.0, 3.0, 0.5, 0.7, 4.0, 5.0
        c, s_ = math.cos(r), math.sin(r)
        def mul(A, B): return [[sum(A[i][k] * B[k][j] for k in range(3)) for j in range(3)] for i in range(3)]
        Mx = mul(mul(mul([[sx, 0, 0], [0, sy, 0], [0, 0, 1]], [[1, 0, 0], [h, 1, 0], [0, 0, 1]]), [[c, s_, 0], [-s_, c, 0], [0, 0, 1]]), [[1, 0, 0], [0, 1, 0], [tx, ty, 1]])
        m = (cty * 9)(*[Mx[i][j] for i in range(3) for j in range(3)]); out = (cty * 9)(); fac = (cty * 6)()
        f = getattr(X.lib, fn + X.T); f.restype = ctypes.c_int if 'remove' in fn else None
        f(ctypes.cast(m, ctypes.c_void_p), 0, ctypes.cast(out, ctypes.c_void_p))
        g = getattr(X.lib, 'w_shrt33' + X.T); g.restype = ctypes.c_int
        ok = g(ctypes.cast(m, ctypes.c_void_p), ctypes.cast(fac, ctypes.c_void_p))
        if not ok: return [('native extractSHRT failed on the canonical matrix', True)]
        hh, rr, t0, t1 = fac[2], fac[3], fac[4], fac[5]
        want = mul(mul([[1, 0, 0], [hh, 1, 0], [0, 0, 1]], [[math.cos(rr), math.sin(rr), 0], [-math.sin(rr), math.cos(rr), 0], [0, 0, 1]]), [[1, 0, 0], [0, 1, 0], [t0, t1, 1]])
        tol = 1e-4 if X.T == 'f' else 1e-9
        bad = [(i, j) for i in range(3) for j in range(3) if abs(out[3 * i + j] - want[i][j]) > tol * (1 + abs(want[i][j]))]
        return [('success => result == shear * rotation * translation [%d][%d]' % (i, j), (i, j) not in bad) for i in range(3) for j in range(3)]
    def hrt33(I, O, X, inplace=False, fn='w_sans33'):
        if X.conc: return native33(X, fn)
        log = X.S.contract_log
        if len(log) != 1: return [('exactly one decomposition call', False)]
        f = log[0]; R2 = rot2(X, f['rot'][0])
        want = mm(mm(H31(f['shr'][0]), emb(R2, 3)), T33(f['tran']))
        ok = f['ok']
        return [('success => result == shear * rotation * translation [%d][%d]' % (i, j), IMPLIES(ok, eq(M(O['r'], 3)[i][j], want[i][j]))) for i in range(3) for j in range(3)] + \
               [('failure => the input matrix is returned unchanged', IMPLIES(NOT(ok), allof(meq(M(O['r'], 3), M(I['m'], 3)))))]
    add('O1.sansScaling_Matrix33', 'w_sans33{T}', [In('m', 9), Int(0), Out('r', 9)], hrt33, desc='2-D sansScaling: shear*rotation*translation of the extracted factors (input returned on failure)')
    add('O1.removeScaling_Matrix33', 'w_remove33{T}', [In('m', 9), Int(0), Out('r', 9)], lambda I, O, X: hrt33(I, O, X, fn='w_remove33'), desc='2-D removeScaling: leaves shear*rotation*translation of the extracted factors')
    def hrt44(I, O, X):
        if X.conc: return True
        log = X.S.contract_log
        if len(log) != 1: return [('exactly one decomposition call', False)]
        f = log[0]
        want = mm(mm(H3(f['shr']), euler_xyz(X, f['rot'])), T44(f['tran']))
        ok = f['ok']
        return [('success => result == shear * rotation * translation [%d][%d]' % (i, j), IMPLIES(ok, eq(M(O['r'], 4)[i][j], want[i][j]))) for i in range(4) for j in range(4)] + \
               [('failure => the input matrix is returned unchanged', IMPLIES(NOT(ok), allof(meq(M(O['r'], 4), M(I['m'], 4)))))]
    add('O1.sansScaling_Matrix44', 'w_sans44{T}', [In('m', 16), Int(0), Out('r', 16)], hrt44, desc='3-D sansScaling: shear*rotation*translation of the extracted factors (XYZ Euler rotation)')
    add('O1.removeScaling_Matrix44', 'w_remove44{T}', [In('m', 16), Int(0), Out('r', 16)], hrt44, desc='3-D removeScaling: leaves shear*rotation*translation of the extracted factors')
    def ss(n, lin):
        def c(I, O, X):
            if X.conc: return True
            log = X.S.contract_log
            if len(log) != 1: return [('exactly one decomposition call', False)]
            f = log[0]; ok = f['ok']; Min = M(I['m'], n); Mout = M(O['r'], n)
            want = [[f['M'][(i, j)] if (i < lin and j < lin) else Min[i][j] for j in range(n)] for i in range(n)]
            return [('success => the rotation left by the decomposition plus the untouched translation / last column', IMPLIES(ok, allof(meq(Mout, want)))),
                    ('failure => the input matrix is returned unchanged', IMPLIES(NOT(ok), allof(meq(Mout, Min))))]
        return c
    add('O2.sansScalingAndShear_Matrix33', 'w_sansSS33{T}', [In('m', 9), Int(0), Out('r', 9)], ss(3, 2), desc='2-D sansScalingAndShear returns rotation*translation: the orthonormalised linear part, translation untouched')
    add('O2.sansScalingAndShear_Matrix44', 'w_sansSS44{T}', [In('m', 16), Int(0), Out('r', 16)], ss(4, 3), desc='3-D sansScalingAndShear returns rotation*translation')
    return cs


def build(chk):
    e = EngC(chk, 'decomp', keep_calls=KEEP)
    for T in ('d', 'f'):
        for c in cases(T):
            e.add(c)
    # guard kernel on IEEE floats
    eb = EngB(chk, 'decomp', vopts=dict(nvec=60, skip=tuple(n for n in eb_names())), validate=False)
    eb.variant('exact', only=['w_checkzero3f', 'w_checkzero2f'])
    chk.add(eb.ob('O3.checkForZeroScaleInRow_3', tier='thorough', core=False, **{}) if False else eb.ob('O3.checkForZeroScaleInRow_3', 'c12/guard.c', 'h_checkzero3', 'checkForZeroScaleInRow(scl,row): whenever it returns true every row[i]/scl is finite; false/domain_error exactly when |scl| < 1 and some |row_i| >= max*|scl|',
                  unwind=5, bounds='all finite float inputs', timeout=900, backends=('kissat', 'cadical'), tier='thorough', core=False))
    chk.assumptions += ['compositional: extractSHRT and extractAndRemoveScalingAndShear are replaced by opaque callees that write arbitrary factor values and return an arbitrary bool; the recomposition wrappers are decided for every such outcome',
                        'sin/cos of the extracted rotation angle(s): one pair per argument with s^2+c^2=1']
    chk.outside += ['extractAndRemoveScalingAndShear itself (Gram-Schmidt with three nested square roots): scale*shear*rotation == input is not decided (prototype: nlsat unknown)',
                    'jacobiSVD, jacobiEigenSolver, min/maxEigenVector, procrustesRotationAndTranslation: sweeps repeat until floating-point convergence, no unwinding bound derivable from the code',
                    'computeRSMatrix, extractSHRT end-to-end: not yet attempted']
    chk.not_encodable += ['jacobiSVD / jacobiEigenSolver / procrustesRotationAndTranslation (data-dependent do-while convergence loops)']


def eb_names(): return ()
