"""C12 - matrix factorisations recompose to their input with structured factors (the decidable part)."""
import re
from fractions import Fraction
import z3
from vf.engc import EngC
from vf.engb import EngB
from vf.irsym import Rat
from props.symutil import *
from props.c09 import euler_xyz, emb, T33, H31, rot2, T44, H3
from props import contracts
from props.c14 import asb

KEEP = [r'extractSHRT', r'extractAndRemoveScalingAndShear', contracts.LENGTH_RE]


def install(sym):
    """opaque callees: extractSHRT / extractAndRemoveScalingAndShear write ARBITRARY factors and return an arbitrary bool.
    The recomposition wrappers are then verified for every possible factor value (sound over-approximation)."""
    contracts.install(sym, sym.m)
    sym.contract_log = []
    for name in sym.m.funcs:
        n = name[1:]
        if 'extractSHRT' in n:
            m33 = 'Matrix33' in n
            esz = 4 if ('IfE' in n or 'IfT' in n or n.count('If')) and 'Id' not in n else 8
            def c(S, st, args, m33=m33, n=n):
                esz_ = 4 if re.search(r'extractSHRTIf', n) else 8
                S.fresh += 1; k = S.fresh
                out = {}
                ptrs = [a for a in args if hasattr(a, 'obj')]
                # args: mat, scl, shr, rot, tran [, exc / order]
                dims = [2, 1, 1, 2] if m33 else [3, 3, 3, 3]
                names = ['scl', 'shr', 'rot', 'tran']
                for nm, p, d in zip(names, ptrs[1:5], dims):
                    vs = [z3.Real('%s%d_%d' % (nm, k, i)) for i in range(d)]
                    for i, v in enumerate(vs): st.mem[(p.obj, p.off + i * esz_)] = Rat(v)
                    out[nm] = [Rat(v) for v in vs]
                b = z3.Bool('shrt_ok_%d' % k); out['ok'] = b
                S.contract_log.append(out)
                return b
            sym.contracts[n] = c
        elif 'extractAndRemoveScalingAndShear' in n:
            m33 = 'Matrix33' in n
            def c2(S, st, args, m33=m33, n=n):
                esz_ = 4 if re.search(r'ScalingAndShearIf', n) else 8
                S.fresh += 1; k = S.fresh
                ptrs = [a for a in args if hasattr(a, 'obj')]
                dim = 3 if m33 else 4; lin = 2 if m33 else 3
                out = {'M': {}}
                for i in range(lin):
                    for j in range(lin):
                        v = z3.Real('er%d_%d%d' % (k, i, j)); st.mem[(ptrs[0].obj, ptrs[0].off + (dim * i + j) * esz_)] = Rat(v); out['M'][(i, j)] = Rat(v)
                for nm, p, d in zip(['scl', 'shr'], ptrs[1:3], [2, 1] if m33 else [3, 3]):
                    for i in range(d): st.mem[(p.obj, p.off + i * esz_)] = Rat(z3.Real('%s%d_%d' % (nm, k, i)))
                b = z3.Bool('er_ok_%d' % k); out['ok'] = b
                S.contract_log.append(out)
                return b
            sym.contracts[n] = c2


def cases(T):
    cs = []
    def add(name, func, args, claim, **kw):
        kw.setdefault('setup', install); kw.setdefault('nvalid', 0)
        kw.setdefault('bounds', 'all real input matrices and, for the opaque decomposition callee, ALL factor values and both outcomes (success / failure)')
        cs.append(Case('%s.%s' % (name, T), func, args, claim, T=T, **kw))
    def native33(X, fn):
        """native confirmation on a canonical well-conditioned matrix S*H*R*T: the real wrapper vs shear*rotation*translation
        of the factors the real extractSHRT returns (the claim quantifies over all factor values, so any witness will do)"""
        import ctypes, math
        cty = ctypes.c_float if X.T == 'f' else ctypes.c_double
        sx, sy, h, r, tx, ty = 2.0, 3.0, 0.5, 0.7, 4.0, 5.0
        c, s_ = math.cos(r), math.sin(r)
        def mul(A, B): return [[sum(A[i][k] * B[k][j] for k in range(3)) for j in range(3)] for i in range(3)]
        Mx = mul(mul(mul([[sx, 0, 0], [0, sy, 0], [0, 0, 1]], [[1, 0, 0], [h, 1, 0], [0, 0, 1]]), [[c, s_, 0], [-s_, c, 0], [0, 0, 1]]), [[1, 0, 0], [0, 1, 0], [tx, ty, 1]])
        m = (cty * 9)(*[Mx[i][j] for i in range(3) for j in range(3)]); out = (cty * 9)(); fac = (cty * 6)()
        f = getattr(X.lib, fn + X.T); f.restype = ctypes.c_int if 'remove' in fn else None
        f(ctypes.cast(m, ctypes.c_void_p), 0, ctypes.cast(out, ctypes.c_void_p))
        g = getattr(X.lib, 'w_shrt33' + X.T); g.restype = ctypes.c_int
        ok = g(ctypes.cast(m, ctypes.c_void_p), ctypes.cast(fac, ctypes.c_void_p))
        if not ok: return [('native extractSHRT failed on the canonical matrix', True)]
        hh, rr, t0, t1 = fac[2], fac[3], fac[4], fac[5]
        want = mul(mul([[1, 0, 0], [hh, 1, 0], [0, 0, 1]], [[math.cos(rr), math.sin(rr), 0], [-math.sin(rr), math.cos(rr), 0], [0, 0, 1]]), [[1, 0, 0], [0, 1, 0], [t0, t1, 1]])
        tol = 1e-4 if X.T == 'f' else 1e-9
        bad = [(i, j) for i in range(3) for j in range(3) if abs(out[3 * i + j] - want[i][j]) > tol * (1 + abs(want[i][j]))]
        return [('success => result == shear * rotation * translation [%d][%d]' % (i, j), (i, j) not in bad) for i in range(3) for j in range(3)]
    def hrt33(I, O, X, inplace=False, fn='w_sans33'):
        if X.conc: return native33(X, fn)
        log = X.S.contract_log
        if len(log) != 1: return [('exactly one decomposition call', False)]
        f = log[0]; R2 = rot2(X, f['rot'][0])
        want = mm(mm(H31(f['shr'][0]), emb(R2, 3)), T33(f['tran']))
        ok = f['ok']
        return [('success => result == shear * rotation * translation [%d][%d]' % (i, j), IMPLIES(ok, eq(M(O['r'], 3)[i][j], want[i][j]))) for i in range(3) for j in range(3)] + \
               [('failure => the input matrix is returned unchanged', IMPLIES(NOT(ok), allof(meq(M(O['r'], 3), M(I['m'], 3)))))]
    add('O1.sansScaling_Matrix33', 'w_sans33{T}', [In('m', 9), Int(0), Out('r', 9)], hrt33, desc='2-D sansScaling: shear*rotation*translation of the extracted factors (input returned on failure)')
    add('O1.removeScaling_Matrix33', 'w_remove33{T}', [In('m', 9), Int(0), Out('r', 9)], lambda I, O, X: hrt33(I, O, X, fn='w_remove33'), desc='2-D removeScaling: leaves shear*rotation*translation of the extracted factors')
    def hrt44(I, O, X):
        if X.conc: return True
        log = X.S.contract_log
        if len(log) != 1: return [('exactly one decomposition call', False)]
        f = log[0]
        want = mm(mm(H3(f['shr']), euler_xyz(X, f['rot'])), T44(f['tran']))
        ok = f['ok']
        return [('success => result == shear * rotation * translation [%d][%d]' % (i, j), IMPLIES(ok, eq(M(O['r'], 4)[i][j], want[i][j]))) for i in range(4) for j in range(4)] + \
               [('failure => the input matrix is returned unchanged', IMPLIES(NOT(ok), allof(meq(M(O['r'], 4), M(I['m'], 4)))))]
    add('O1.sansScaling_Matrix44', 'w_sans44{T}', [In('m', 16), Int(0), Out('r', 16)], hrt44, desc='3-D sansScaling: shear*rotation*translation of the extracted factors (XYZ Euler rotation)')
    add('O1.removeScaling_Matrix44', 'w_remove44{T}', [In('m', 16), Int(0), Out('r', 16)], hrt44, desc='3-D removeScaling: leaves shear*rotation*translation of the extracted factors')
    def ss(n, lin):
        def c(I, O, X):
            if X.conc: return True
            log = X.S.contract_log
            if len(log) != 1: return [('exactly one decomposition call', False)]
            f = log[0]; ok = f['ok']; Min = M(I['m'], n); Mout = M(O['r'], n)
            want = [[f['M'][(i, j)] if (i < lin and j < lin) else Min[i][j] for j in range(n)] for i in range(n)]
            return [('success => the rotation left by the decomposition plus the untouched translation / last column', IMPLIES(ok, allof(meq(Mout, want)))),
                    ('failure => the input matrix is returned unchanged', IMPLIES(NOT(ok), allof(meq(Mout, Min))))]
        return c
    add('O2.sansScalingAndShear_Matrix33', 'w_sansSS33{T}', [In('m', 9), Int(0), Out('r', 9)], ss(3, 2), desc='2-D sansScalingAndShear returns rotation*translation: the orthonormalised linear part, translation untouched')
    add('O2.sansScalingAndShear_Matrix44', 'w_sansSS44{T}', [In('m', 16), Int(0), Out('r', 16)], ss(4, 3), desc='3-D sansScalingAndShear returns rotation*translation')
    return cs


GUARD_RE = r'checkForZeroScaleInRow'
TMAX = {4: Fraction((2 ** 24 - 1) * 2 ** 104), 8: Fraction((2 ** 53 - 1) * 2 ** 971)}


def guard_spec(s, row, esz):
    """checkForZeroScaleInRow(scl,row,false) over the reals: false exactly when |scl| < 1 and some |row[i]| >= max * |scl|  (squares, no abs)"""
    s = R(s); mx2 = TMAX[esz] * TMAX[esz]
    small = lt(rmul(s, s), rz(1))
    big = OR(*[le(rmul(rz(mx2), rmul(s, s)), rmul(R(r), R(r))) for r in row])
    return NOT(AND(small, big))


def guard_weak(b, s, row):
    """two consequences of guard_spec without the 1e308-sized constant: scl == 0 => false;  scl != 0 and every |row[i]| <= |scl| => true"""
    s = R(s); s2 = rmul(s, s)
    return [IMPLIES(eq(s, rz(0)), NOT(b)), IMPLIES(AND(ne(s, rz(0)), *[le(rmul(R(r), R(r)), s2) for r in row]), b)]


def install_guard(sym):
    """the guard as a summary (one Boolean instead of up to 27 paths per call): an arbitrary outcome constrained by guard_weak;
    O4.guard_summary decides, on the guard's real body, that every real outcome satisfies those constraints"""
    for name in sym.m.funcs:
        n = name[1:]
        if re.search(GUARD_RE, n) and n.startswith('_Z'):
            dim = 3 if 'Vec3' in n else 2
            esz = 4 if re.search(r'checkForZeroScaleInRowIf', n) else 8
            def c(S, st, args, dim=dim, esz=esz):
                if args[2] not in (0, False): raise Exception('guard summary is for exc == false')
                sp, rp = args[0], args[1]
                sv = st.mem[(sp.obj, sp.off)]
                row = [st.mem[(rp.obj, rp.off + i * esz)] for i in range(dim)]
                S.fresh += 1; b = z3.Bool('guard_ok_%d' % S.fresh)
                st.pc += [c_ for c_ in guard_weak(b, sv, row) if c_ is not True]
                return b
            sym.contracts[n] = c


def body_cases(T):
    """the real body of extractAndRemoveScalingAndShear (only Vec::length() is a contract here)"""
    cs = []
    def setup(sym):
        contracts.install(sym, sym.m); install_guard(sym); sym.check_divzero = False
    def setup_dz(sym):
        contracts.install(sym, sym.m); install_guard(sym)      # divisions by zero are paths of their own: a zero scale that slips past its guard shows up here
    def lin(v, n): return [[v[n * i + j] for j in range(n - 1)] for i in range(n - 1)]
    def degenerate(I, O, X):
        A = lin(I['m'], 4)
        return [('singular linear part => reported (false), nothing decomposed', IMPLIES(eq(det(A), rz(0)), NOT(asb(O['ret']))))]
    def factor(I, O, X):
        A = lin(I['m'], 4); Rm = lin(O['r'], 4); s = O['scl']; h = O['shr']; ok = asb(O['ret'])
        cl = []
        for i in range(3):
            cl.append(('true => rotation row %d is unit' % i, IMPLIES(ok, eq(rdot(Rm[i], Rm[i]), rz(1)))))
            for j in range(i + 1, 3): cl.append(('true => rotation rows %d,%d orthogonal' % (i, j), IMPLIES(ok, eq(rdot(Rm[i], Rm[j]), rz(0)))))
        cl.append(('true => right-handed', IMPLIES(ok, eq(det(Rm), rz(1)))))
        rec = [[rmul(s[0], Rm[0][c]) for c in range(3)],
               [rmul(s[1], radd(rmul(h[0], Rm[0][c]), Rm[1][c])) for c in range(3)],
               [rmul(s[2], radd(radd(rmul(h[1], Rm[0][c]), rmul(h[2], Rm[1][c])), Rm[2][c])) for c in range(3)]]
        for i in range(3):
            for c in range(3): cl.append(('true => scale*shear*rotation == input [%d][%d]' % (i, c), IMPLIES(ok, eq(rec[i][c], A[i][c]))))
        return cl
    F_ = Fraction
    def mm3(A, Bm): return [[sum(A[i][k] * Bm[k][j] for k in range(3)) for j in range(3)] for i in range(3)]
    QS = [('identity', [[1, 0, 0], [0, 1, 0], [0, 0, 1]]), ('axis_permutation', [[0, 1, 0], [0, 0, 1], [1, 0, 0]]), ('axis_flip', [[0, 0, -1], [0, -1, 0], [-1, 0, 0]]),
          ('rational_rotation', mm3([[F_(4, 5), 0, F_(-3, 5)], [0, 1, 0], [F_(3, 5), 0, F_(4, 5)]], [[F_(12, 13), F_(5, 13), 0], [F_(-5, 13), F_(12, 13), 0], [0, 0, 1]]))]
    for qname, Q in QS:
        def fam(ps, Q=Q):
            a, b, c, d, e, f = ps
            L = [[a, rz(0), rz(0)], [b, c, rz(0)], [d, e, f]]
            A = [[rsum(rmul(L[i][k], rz(Q[k][j])) for k in range(3)) for j in range(3)] for i in range(3)]
            out = []
            for i in range(3): out += A[i] + [rz(0)]
            return out + [rz(F_(1, 2)), rz(-3), rz(2), rz(1)]
        pre = lambda I: [AND(R(v).n >= -16, R(v).n <= 16) for v in I['m_p']]
        def degenerate_p(I, O, X):
            a, b, c, d, e, f = I['m_p']
            return [('singular linear part => reported (false), nothing decomposed', IMPLIES(OR(eq(a, rz(0)), eq(c, rz(0)), eq(f, rz(0))), NOT(asb(O['ret'])))),
                    ('regular linear part => decomposed (true)', IMPLIES(AND(ne(a, rz(0)), ne(c, rz(0)), ne(f, rz(0))), asb(O['ret'])))]
        def samp(rng, inp):
            inp['m_p'] = [F_(rng.randint(-32, 32), 8) or F_(1) for _ in range(6)]; return inp
        A44 = [In('m', 16, param=(6, fam)), Int(0), Out('r', 16), Out('scl', 3), Out('shr', 3)]
        bnd = 'linear part = lower-triangular L (six arbitrary reals in [-16,16]: every Gram-Schmidt outcome incl. each rank deficiency) times the pinned rotation %s; exc = false' % qname
        cs.append(Case('O4.extractAndRemove44_degenerate_reported.%s.%s' % (qname, T), 'w_extract_remove44' + T, A44, degenerate_p, T=T, setup=setup_dz, pre=pre, sample=samp, nvalid=3, allow_divzero=False, budget=300, timeout_ms=20000, max_paths=5000, tier=('thorough' if qname == 'rational_rotation' else 'quick'), core=(qname != 'rational_rotation'),
                       desc='real body of extractAndRemoveScalingAndShear(Matrix44): returns false exactly when the linear part is singular - each of the three zero-scale guards - and never divides by a zero scale', bounds=bnd))
        cs.append(Case('O4.extractAndRemove44_factorisation.%s.%s' % (qname, T), 'w_extract_remove44' + T, A44, factor, T=T, setup=setup, pre=pre, sample=samp, nvalid=3, allow_divzero=True, budget=400, timeout_ms=20000, max_paths=5000, tier=('thorough' if qname == 'rational_rotation' else 'quick'), core=(qname != 'rational_rotation'),
                       desc='real body of extractAndRemoveScalingAndShear(Matrix44): on success the remaining matrix is a right-handed rotation and scale*shear*rotation reproduces the input', bounds=bnd))
    # ---- 2-D copy of the same algorithm
    for qname, Q in (('identity', [[1, 0], [0, 1]]), ('quarter_turn', [[0, 1], [-1, 0]])):
        def fam2(ps, Q=Q):
            a, b, c = ps
            L = [[a, rz(0)], [b, c]]
            A = [[rsum(rmul(L[i][k], rz(Q[k][j])) for k in range(2)) for j in range(2)] for i in range(2)]
            return A[0] + [rz(0)] + A[1] + [rz(0)] + [rz(F_(1, 2)), rz(-3), rz(1)]
        pre2 = lambda I: [AND(R(v).n >= -16, R(v).n <= 16) for v in I['m_p']]
        def degenerate2(I, O, X):
            a, b, c = I['m_p']
            return [('singular linear part => reported (false)', IMPLIES(OR(eq(a, rz(0)), eq(c, rz(0))), NOT(asb(O['ret'])))),
                    ('regular linear part => decomposed (true)', IMPLIES(AND(ne(a, rz(0)), ne(c, rz(0))), asb(O['ret'])))]
        def factor2(I, O, X):
            A = lin(I['m'], 3); Rm = lin(O['r'], 3); s2 = O['scl']; h = O['shr'][0]; ok = asb(O['ret'])
            cl = [('true => rotation row %d is unit' % i, IMPLIES(ok, eq(rdot(Rm[i], Rm[i]), rz(1)))) for i in range(2)]
            cl += [('true => rotation rows orthogonal', IMPLIES(ok, eq(rdot(Rm[0], Rm[1]), rz(0)))), ('true => right-handed', IMPLIES(ok, eq(det(Rm), rz(1))))]
            rec = [[rmul(s2[0], Rm[0][c]) for c in range(2)], [rmul(s2[1], radd(rmul(h, Rm[0][c]), Rm[1][c])) for c in range(2)]]
            cl += [('true => scale*shear*rotation == input [%d][%d]' % (i, c), IMPLIES(ok, eq(rec[i][c], A[i][c]))) for i in range(2) for c in range(2)]
            return cl
        def samp2(rng, inp):
            inp['m_p'] = [F_(rng.randint(-32, 32), 8) or F_(1) for _ in range(3)]; return inp
        A33 = [In('m', 9, param=(3, fam2)), Int(0), Out('r', 9), Out('scl', 2), Out('shr', 1)]
        bnd2 = 'linear part = lower-triangular 2x2 L (three arbitrary reals in [-16,16]) times the pinned rotation %s; exc = false' % qname
        cs.append(Case('O4.extractAndRemove33_degenerate_reported.%s.%s' % (qname, T), 'w_extract_remove33' + T, A33, degenerate2, T=T, setup=setup_dz, pre=pre2, sample=samp2, nvalid=3, allow_divzero=False, budget=200, timeout_ms=20000,
                       desc='real body of extractAndRemoveScalingAndShear(Matrix33): returns false exactly when the linear part is singular, and never divides by a zero scale', bounds=bnd2))
        cs.append(Case('O4.extractAndRemove33_factorisation.%s.%s' % (qname, T), 'w_extract_remove33' + T, A33, factor2, T=T, setup=setup, pre=pre2, sample=samp2, nvalid=3, allow_divzero=True, budget=200, timeout_ms=20000,
                       desc='real body of extractAndRemoveScalingAndShear(Matrix33): on success the remaining matrix is a right-handed rotation and scale*shear*rotation reproduces the input', bounds=bnd2))
    def degenerate2g(I, O, X):
        A = lin(I['m'], 3); dt = det(A)
        return [('singular linear part => reported (false)', IMPLIES(eq(dt, rz(0)), NOT(asb(O['ret'])))), ('regular linear part => decomposed (true)', IMPLIES(ne(dt, rz(0)), asb(O['ret'])))]
    G33 = [In('m', 9, fixed={2: 0, 5: 0, 8: 1}), Int(0), Out('r', 9), Out('scl', 2), Out('shr', 1)]
    preg = lambda I: [AND(R(v).n >= -16, R(v).n <= 16) for v in I['m'] if not R(v).conc()]
    cs.append(Case('O4.extractAndRemove33_degenerate_reported.general.%s' % T, 'w_extract_remove33' + T, G33, degenerate2g, T=T, setup=setup_dz, pre=preg, nvalid=3, allow_divzero=False, budget=300, timeout_ms=30000,
                   desc='real body of extractAndRemoveScalingAndShear(Matrix33), every 2-D affine matrix: false exactly when the linear part is singular; no division by a zero scale', bounds='all real matrices with entries in [-16,16]; exc = false'))
    cs.append(Case('O4.extractAndRemove33_factorisation.general.%s' % T, 'w_extract_remove33' + T, G33, factor2, T=T, setup=setup, pre=preg, nvalid=3, allow_divzero=True, budget=300, timeout_ms=30000,
                   desc='real body of extractAndRemoveScalingAndShear(Matrix33), every 2-D affine matrix: on success a right-handed rotation remains and scale*shear*rotation reproduces the input', bounds='all real matrices with entries in [-16,16]; exc = false'))
    return cs


def build(chk):
    e = EngC(chk, 'decomp', keep_calls=KEEP)
    for T in ('d', 'f'):
        for c in cases(T):
            e.add(c)
    e2 = EngC(chk, 'decomp', keep_calls=[contracts.LENGTH_RE, GUARD_RE])
    for T in ('d', 'f'):
        for c in body_cases(T):
            if T == 'f' and chk.tier != 'thorough': continue
            e2.add(c)
    for T in ('d', 'f'):
        esz = 8 if T == 'd' else 4
        for dim in (3, 2):
            e.add(Case('O4.guard_summary.Vec%d.%s' % (dim, T), 'w_checkzero%d%s' % (dim, T), [Val('scl'), In('row', dim), Int(0)],
                       (lambda esz: lambda I, O, X: [('the guard returns false exactly when |scl| < 1 and some |row[i]| >= max*|scl|', (lambda sp: AND(IMPLIES(asb(O['ret']), sp), IMPLIES(sp, asb(O['ret']))))(guard_spec(I['scl'], I['row'], esz)))] + [('summary constraint %d holds for the real outcome' % k, w) for k, w in enumerate(guard_weak(asb(O['ret']), I['scl'], I['row']))])(esz),
                       T=T, nvalid=0, budget=120, desc='checkForZeroScaleInRow(scl, Vec%d, false) returns false exactly when |scl| < 1 and some |row[i]| >= max*|scl| (the exact summary substituted for the guard inside extractAndRemoveScalingAndShear)' % dim,
                       bounds='all real scl and row'))
    # guard kernel on IEEE floats
    eb = EngB(chk, 'decomp', vopts=dict(nvec=60, skip=tuple(n for n in eb_names())), validate=False)
    eb.variant('exact', only=['w_checkzero3f', 'w_checkzero2f'])
    chk.add(eb.ob('O3.checkForZeroScaleInRow_3', tier='thorough', core=False, **{}) if False else eb.ob('O3.checkForZeroScaleInRow_3', 'c12/guard.c', 'h_checkzero3', 'checkForZeroScaleInRow(scl,row): whenever it returns true every row[i]/scl is finite; false/domain_error exactly when |scl| < 1 and some |row_i| >= max*|scl|',
                  unwind=5, bounds='all finite float inputs', timeout=900, backends=('kissat', 'cadical'), tier='thorough', core=False))
    chk.assumptions += ['checkForZeroScaleInRow inside the extraction body is replaced by a summary (scl == 0 => false; scl != 0 and every |row[i]| <= |scl| => true), decided against its real body by O4.guard_summary', 'compositional: extractSHRT and extractAndRemoveScalingAndShear are replaced by opaque callees that write arbitrary factor values and return an arbitrary bool; the recomposition wrappers are decided for every such outcome',
                        'sin/cos of the extracted rotation angle(s): one pair per argument with s^2+c^2=1']
    chk.outside += ['extractAndRemoveScalingAndShear(Matrix44) on its real body: decided for lower-triangular linear parts times pinned axis rotations (quick) and a pinned rational rotation (thorough, budgeted); a fully general 3x3 linear part is not decided (nlsat unknown); the 2-D body is decided for every matrix',
                    'jacobiSVD, jacobiEigenSolver, min/maxEigenVector, procrustesRotationAndTranslation: sweeps repeat until floating-point convergence, no unwinding bound derivable from the code',
                    'computeRSMatrix, extractSHRT end-to-end: not yet attempted']
    chk.not_encodable += ['jacobiSVD / jacobiEigenSolver / procrustesRotationAndTranslation (data-dependent do-while convergence loops)']


def eb_names(): return ()
