"""C15 - line, plane, sphere, triangle primitives satisfy their geometric definitions (engine C, exact reals)."""
from fractions import Fraction
from vf.engc import EngC
from props.symutil import *
from props.c14 import asb
from props.c06 import zabsr

B = 2 ** 20
EPS = Fraction(1, 2 ** 60)


def vsub(a, b): return [rsub(x, y) for x, y in zip(a, b)]
def vadd(a, b): return [radd(x, y) for x, y in zip(a, b)]
def vscale(a, k): return [rmul(x, k) for x in a]
def vzero(a): return AND(*[eq(x, rz(0)) for x in a])
def parallel(a, b): return vzero(cross3(a, b))
def boxed(vs):
    out = []
    for v in vs:
        v = R(v)
        if not v.conc(): out.append(AND(v.n >= -B, v.n <= B))
        elif abs(v.frac()) > B: out.append(False)
    return out
def unit(d): return eq(norm2(d), rz(1))


def along(X, u, v, label):
    """u == v/|v| component-wise, stated linearly in the square-root witness: u_i * |v| == v_i"""
    L = X.sqrt(norm2(v))
    return [('%s [%d]' % (label, i), eq(rmul(u[i], L), v[i])) for i in range(3)]


def contracts_install(sym):
    __import__('props.contracts', fromlist=['x']).install(sym, sym.m)


def contracts_install_nodz(sym):
    """as above, for claims about completed calls only: divisors are assumed non-zero without a separate division-by-zero path"""
    contracts_install(sym); sym.check_divzero = False; sym.prune = False


def unit_sample(names):
    """replace direction triples by exact rational unit vectors for executor validation"""
    PY = [(Fraction(3, 5), Fraction(4, 5), Fraction(0)), (Fraction(2, 3), Fraction(1, 3), Fraction(2, 3)), (Fraction(0), Fraction(-1), Fraction(0)),
          (Fraction(6, 7), Fraction(-2, 7), Fraction(3, 7)), (Fraction(-1, 9), Fraction(4, 9), Fraction(8, 9)), (Fraction(1), Fraction(0), Fraction(0))]
    def f(rng, inp):
        for nm, off in names:
            v = list(inp[nm]); u = rng.choice(PY); v[off:off + 3] = u; inp[nm] = v
        return inp
    return f


def cases(T):
    cs = []
    def add(name, func, args, claim, **kw):
        kw.setdefault('bounds', 'all real inputs with coordinates in [-2^20, 2^20]; directions/normals exactly unit where the API documents a normalised line/plane')
        kw.setdefault('setup', contracts_install)
        cs.append(Case('%s.%s' % (name, T), func, args, claim, T=T, **kw))
    # ---- Line3
    def lineset(I, O, X):
        l = O['l']; p0 = I['p0']; p1 = I['p1']; d = l[3:]; e = vsub(p1, p0)
        return veq(l[:3], p0, 'pos') + [('dir is unit', unit(d))] + along(X, d, e, 'dir == (p1-p0)/|p1-p0|')
    for fn in ('w_line_set', 'w_line_ctor'):
        add('O1.Line3.%s' % fn[7:], fn + '{T}', [In('p0', 3), In('p1', 3), Out('l', 6)], lineset, pre=lambda I: boxed(I['p0'] + I['p1']) + [lt(rz(0), norm2(vsub(I['p1'], I['p0'])))],
            desc='Line3 set/constructor: pos = p0, dir = unit vector along p1-p0 (p0 != p1)', budget=200)
    add('O1.Line3.operator()', 'w_line_at{T}', [In('l', 6), Val('t'), Out('r', 3)], lambda I, O, X: veq(O['r'], vadd(I['l'][:3], vscale(I['l'][3:], I['t']))), desc='line(t) == pos + t*dir')
    def cpt(I, O, X):
        pos, d = I['l'][:3], I['l'][3:]; q = O['r']
        return [('on the line', parallel(vsub(q, pos), d)), ('segment to the point is perpendicular to dir', eq(rdot(vsub(q, I['p']), d), rz(0)))]
    UL = lambda I: boxed(I['l'][:3]) + [unit(I['l'][3:])]
    add('O1.Line3.closestPointTo_point', 'w_line_closest_pt{T}', [In('l', 6), In('p', 3), Out('r', 3)], cpt, pre=lambda I: UL(I) + boxed(I['p']), sample=unit_sample([('l', 3)]),
        desc='closestPointTo(point): on the line, connecting segment perpendicular to dir')
    def dpt(I, O, X):
        pos, d = I['l'][:3], I['l'][3:]; w = vsub(I['p'], pos); r = O['ret']
        return [('distance >= 0', le(rz(0), r)), ('distance^2 == |w|^2 - (w.dir)^2', eq(rmul(r, r), rsub(norm2(w), rmul(rdot(w, d), rdot(w, d)))))]
    add('O1.Line3.distanceTo_point', 'w_line_dist_pt{T}', [In('l', 6), In('p', 3)], dpt, pre=lambda I: UL(I) + boxed(I['p']), sample=unit_sample([('l', 3)]),
        desc='distanceTo(point) is the length of the perpendicular segment', budget=200)
    def two_lines(I): return boxed(I['l'][:3] + I['m'][:3]) + [unit(I['l'][3:]), unit(I['m'][3:])]
    def nearly_parallel(d1, d2):
        a = rdot(d1, d2); den = rsub(rmul(a, a), rz(1))
        return AND(le(rz(-EPS), den), le(den, rz(EPS)))
    TMAX = Fraction(2 ** 128 - 2 ** 104) if T == 'f' else Fraction(2 ** 1024 - 2 ** 971)
    def guard_parallel(p1, d1, p2, d2):
        # the documented guard itself, on textbook quantities: |1-(d1.d2)^2| * max <= |numerator| for one of the two numerators
        w = vsub(p1, p2); a = rdot(d1, d2); d1w = rdot(d1, w); d2w = rdot(d2, w)
        den = zabsr(rsub(rz(1), rmul(a, a)))
        n1 = zabsr(rsub(rmul(a, d2w), d1w)); n2 = zabsr(rsub(d2w, rmul(a, d1w)))
        return AND(le(den, rz(1)), OR(le(rmul(den, rz(TMAX)), n1), le(rmul(den, rz(TMAX)), n2)))
    def cpl(I, O, X):
        p1, d1, p2, d2 = I['l'][:3], I['l'][3:], I['m'][:3], I['m'][3:]; q = O['r']
        q2 = vadd(p2, vscale(d2, rdot(vsub(q, p2), d2)))      # foot of q on the other line
        return [('on this line', parallel(vsub(q, p1), d1)), ('common perpendicular (or nearly parallel, guarded)', ('anyof', OR(eq(rdot(vsub(q, q2), d1), rz(0)), nearly_parallel(d1, d2)), OR(eq(rdot(vsub(q, q2), d1), rz(0)), guard_parallel(p1, d1, p2, d2))))]
    add('O1.Line3.closestPointTo_line', 'w_line_closest_line{T}', [In('l', 6), In('m', 6), Out('r', 3)], cpl, pre=two_lines, sample=unit_sample([('l', 3), ('m', 3)]),
        core=False, desc='closestPointTo(line): on this line; segment to the other line perpendicular to both directions; nearly parallel lines are guarded, not divided')
    def dll(I, O, X):
        p1, d1, p2, d2 = I['l'][:3], I['l'][3:], I['m'][:3], I['m'][3:]; r = O['ret']
        n = cross3(d1, d2); tr = rdot(n, vsub(p2, p1))
        L = X.sqrt(norm2(n))
        return [('distance >= 0', le(rz(0), r)), ('distance * |d1 x d2| == |(d1 x d2).(p2-p1)|', OR(eq(rmul(r, L), tr), eq(rmul(r, L), rneg(tr))))]
    add('O1.Line3.distanceTo_line', 'w_line_dist_line{T}', [In('l', 6), In('m', 6)], dll, pre=lambda I: two_lines(I) + [lt(rz(0), norm2(cross3(I['l'][3:], I['m'][3:])))], sample=unit_sample([('l', 3), ('m', 3)]),
        desc='distanceTo(line) (non-parallel unit lines): the length of the common perpendicular', budget=200,
        setup=lambda sym: (contracts_install(sym), setattr(sym, 'div_as_var', True)))
    def dll_par(I, O, X):
        p1, d1, p2 = I['l'][:3], I['l'][3:], I['m'][:3]; r = O['ret']; w = vsub(p2, p1)
        return [('distance >= 0', le(rz(0), r)), ('parallel lines: distance^2 == |w|^2 - (w.d)^2', eq(rmul(r, r), rsub(norm2(w), rmul(rdot(w, d1), rdot(w, d1)))))]
    add('O1.Line3.distanceTo_line_parallel', 'w_line_dist_line{T}', [In('l', 6), In('m', 6)], dll_par,
        pre=lambda I: two_lines(I) + [AND(*[eq(I['l'][3 + i], I['m'][3 + i]) for i in range(3)])], sample=lambda rng, inp: (unit_sample([('l', 3)])(rng, inp), inp.__setitem__('m', list(inp['m'][:3]) + list(inp['l'][3:])), inp)[2],
        desc='distanceTo(line) for parallel lines: distance between the lines, not 0', budget=200)
    def cps(I, O, X):
        p1, d1, p2, d2 = I['l'][:3], I['l'][3:], I['m'][:3], I['m'][3:]; a, b = O['a'], O['b']; ok = asb(O['ret'])
        seg = vsub(a, b)
        return [('true => points on their lines', IMPLIES(ok, AND(parallel(vsub(a, p1), d1), parallel(vsub(b, p2), d2)))),
                ('true => segment perpendicular to both', IMPLIES(ok, AND(eq(rdot(seg, d1), rz(0)), eq(rdot(seg, d2), rz(0))))),
                ('false => nearly parallel', ('anyof', IMPLIES(NOT(ok), nearly_parallel(d1, d2)), IMPLIES(NOT(ok), guard_parallel(p1, d1, p2, d2))))]
    add('O1.closestPoints', 'w_closest_points{T}', [In('l', 6), In('m', 6), Out('a', 3), Out('b', 3)], cps, pre=two_lines, sample=unit_sample([('l', 3), ('m', 3)]),
        core=False, desc='closestPoints: points on the respective lines, segment perpendicular to both; false only for (nearly) parallel lines')
    # ---- Plane3
    def pl3(I, O, X):
        n = O['pl'][:3]; d = O['pl'][3]
        return [('unit normal', unit(n))] + [('zero distance to point %d' % k, eq(rdot(n, I[nm]), d)) for k, nm in enumerate(('a', 'b', 'c'))] + \
               along(X, n, cross3(vsub(I['b'], I['a']), vsub(I['c'], I['a'])), 'normal == (b-a)x(c-a) / |(b-a)x(c-a)|')
    add('O2.Plane3.set_three_points', 'w_plane_set3{T}', [In('a', 3), In('b', 3), In('c', 3), Out('pl', 4)], pl3,
        pre=lambda I: boxed(I['a'] + I['b'] + I['c']) + [lt(rz(0), norm2(cross3(vsub(I['b'], I['a']), vsub(I['c'], I['a']))))], desc='Plane3(p1,p2,p3): unit normal with the documented winding, zero signed distance to the three points', budget=200)
    def plpn(I, O, X):
        n = O['pl'][:3]; d = O['pl'][3]
        return [('unit normal', unit(n)), ('zero distance to the point', eq(rdot(n, I['p']), d))] + along(X, n, I['n'], 'normal == n/|n|')
    add('O2.Plane3.set_point_normal', 'w_plane_set_pn{T}', [In('p', 3), In('n', 3), Out('pl', 4)], plpn, pre=lambda I: boxed(I['p'] + I['n']) + [lt(rz(0), norm2(I['n']))], desc='Plane3(point, normal): unit normal, contains the point', budget=200)
    add('O2.Plane3.set_normal_distance', 'w_plane_set_nd{T}', [In('n', 3), Val('d'), Out('pl', 4)],
        lambda I, O, X: [('unit normal', unit(O['pl'][:3])), ('distance kept', eq(O['pl'][3], I['d']))] + along(X, O['pl'][:3], I['n'], 'normal == n/|n|'),
        pre=lambda I: boxed(I['n']) + [lt(rz(0), norm2(I['n']))], desc='Plane3(normal, distance): unit normal, distance kept', budget=200)
    UP = lambda I: [unit(I['pl'][:3])] + boxed([I['pl'][3]])
    add('O2.Plane3.distanceTo', 'w_plane_dist{T}', [In('pl', 4), In('p', 3)], lambda I, O, X: eq(O['ret'], rsub(rdot(I['p'], I['pl'][:3]), I['pl'][3])), desc='distanceTo(p) == p.normal - distance')
    def refl(I, O, X):
        n = I['pl'][:3]; d = I['pl'][3]; p = I['p']; r = O['r']
        return [('signed distance negated', eq(rsub(rdot(r, n), d), rneg(rsub(rdot(p, n), d)))), ('moves along the normal only', parallel(vsub(r, p), n))]
    add('O2.Plane3.reflectPoint', 'w_plane_reflect_pt{T}', [In('pl', 4), In('p', 3), Out('r', 3)], refl, pre=UP, sample=unit_sample([('pl', 0)]), desc='reflectPoint negates the signed distance, moving along the normal')
    add('O2.Plane3.reflectPoint_involution', 'w_plane_reflect_pt2{T}', [In('pl', 4), In('p', 3), Out('r', 3)], lambda I, O, X: veq(O['r'], I['p']), pre=UP, sample=unit_sample([('pl', 0)]), desc='reflectPoint is an involution')
    add('O2.Plane3.reflectVector_involution', 'w_plane_reflect_vec2{T}', [In('pl', 4), In('p', 3), Out('r', 3)], lambda I, O, X: veq(O['r'], I['p']), pre=UP, sample=unit_sample([('pl', 0)]), desc='reflectVector is an involution')
    add('O2.Plane3.reflectVector', 'w_plane_reflect_vec{T}', [In('pl', 4), In('p', 3), Out('r', 3)],
        lambda I, O, X: [('normal component kept', eq(rdot(O['r'], I['pl'][:3]), rdot(I['p'], I['pl'][:3]))), ('length kept', eq(norm2(O['r']), norm2(I['p']))), ('r + v parallel to the normal', parallel(vadd(O['r'], I['p']), I['pl'][:3]))],
        pre=UP, sample=unit_sample([('pl', 0)]), desc='reflectVector mirrors v about the normal axis')
    def plint(I, O, X):
        n = I['pl'][:3]; d = I['pl'][3]; pos, dr = I['l'][:3], I['l'][3:]; ok = asb(O['ret']); r = O['r']
        return [('true => point on the plane', IMPLIES(ok, eq(rdot(r, n), d))), ('true => point on the line', IMPLIES(ok, parallel(vsub(r, pos), dr))), ('false <=> line parallel to the plane', OR(AND(NOT(ok), eq(rdot(n, dr), rz(0))), AND(ok, ne(rdot(n, dr), rz(0)))))]
    add('O2.Plane3.intersect', 'w_plane_intersect{T}', [In('pl', 4), In('l', 6), Out('r', 3)], plint, desc='Plane3::intersect: point on both; false exactly when the line is parallel to the plane')
    def plintt(I, O, X):
        n = I['pl'][:3]; d = I['pl'][3]; pos, dr = I['l'][:3], I['l'][3:]; ok = asb(O['ret']); t = O['t'][0]
        return [('true => pos + t*dir on the plane', IMPLIES(ok, eq(rdot(vadd(pos, vscale(dr, t)), n), d))), ('false <=> parallel', OR(AND(NOT(ok), eq(rdot(n, dr), rz(0))), AND(ok, ne(rdot(n, dr), rz(0)))))]
    add('O2.Plane3.intersectT', 'w_plane_intersect_t{T}', [In('pl', 4), In('l', 6), Out('t', 1)], plintt, desc='Plane3::intersectT: parameter of the hit')
    add('O2.Plane3.negate', 'w_plane_neg{T}', [In('pl', 4), Out('r', 4)], lambda I, O, X: veq(O['r'], [rneg(x) for x in I['pl']]), pre=UP, sample=unit_sample([('pl', 0)]), desc='operator-: normal and distance negated (unit-normal plane)', budget=200)
    # ---- Sphere3
    def onsph(I, t):
        c = I['s'][:3]; r = I['s'][3]; p = vadd(I['l'][:3], vscale(I['l'][3:], t)); return eq(norm2(vsub(p, c)), rmul(r, r))
    def sph(I, O, X):
        ok = asb(O['ret']); t = O['t'][0]; s = X.free('s')
        return [('true => t >= 0 and the point is on the sphere', IMPLIES(ok, AND(le(rz(0), t), onsph(I, t)))),
                ('true => no smaller non-negative parameter on the sphere', IMPLIES(ok, NOT(AND(le(rz(0), s), lt(s, t), onsph(I, s))))),
                ('false => no non-negative parameter on the sphere', IMPLIES(NOT(ok), NOT(AND(le(rz(0), s), onsph(I, s)))))]
    add('O3.Sphere3.intersectT', 'w_sphere_intersect_t{T}', [In('s', 4), In('l', 6), Out('t', 1)], sph, pre=lambda I: boxed(I['s'] + I['l'][:3]) + [unit(I['l'][3:])], sample=unit_sample([('l', 3)]),
        core=False, desc='Sphere3::intersectT: smallest non-negative ray parameter on the sphere, false iff none (unit direction)', budget=240, timeout_ms=30000)
    def circ(I, O, X):
        b = I['b']; c = O['s'][:3]; r = O['s'][3]; cl = [('radius >= 0', le(rz(0), r))]
        for k in range(8):
            corner = [b[3 * ((k >> i) & 1) + i] for i in range(3)]
            cl.append(('corner %d enclosed' % k, le(norm2(vsub(corner, c)), rmul(r, r))))
        return cl
    add('O3.Sphere3.circumscribe', 'w_sphere_circumscribe{T}', [In('b', 6), Out('s', 4)], circ, pre=lambda I: boxed(I['b']) + [le(I['b'][i], I['b'][3 + i]) for i in range(3)], desc='circumscribe encloses the 8 corners of a non-empty box', budget=200)
    # ---- vector algorithms
    NZ = lambda nm: (lambda I: boxed(I['s'] + I['t']) + [lt(rz(0), norm2(I[nm]))])
    add('O4.project', 'w_project{T}', [In('s', 3), In('t', 3), Out('r', 3)], lambda I, O, X: [('parallel to s', parallel(O['r'], I['s'])), ('residual perpendicular to s', eq(rdot(vsub(I['t'], O['r']), I['s']), rz(0)))], pre=NZ('s'), desc='project(s,t): component of t along s', budget=200)
    add('O4.orthogonal', 'w_orthogonal{T}', [In('s', 3), In('t', 3), Out('r', 3)], lambda I, O, X: [('perpendicular to s', eq(rdot(O['r'], I['s']), rz(0))), ('t - r parallel to s', parallel(vsub(I['t'], O['r']), I['s']))], pre=NZ('s'), desc='orthogonal(s,t): component of t perpendicular to s', budget=200)
    add('O4.reflect', 'w_reflect{T}', [In('s', 3), In('t', 3), Out('r', 3)], lambda I, O, X: [('length kept', eq(norm2(O['r']), norm2(I['s']))), ('component along t kept', eq(rdot(O['r'], I['t']), rdot(I['s'], I['t']))), ('r + s parallel to t', parallel(vadd(O['r'], I['s']), I['t']))], pre=NZ('t'), desc='reflect(s,t): mirror s about the axis t', budget=200)
    def cv(I, O, X):
        r = O['r']; vs = [I['v0'], I['v1'], I['v2']]; p = I['p']
        return [('is one of the vertices', OR(*[AND(*[eq(r[i], v[i]) for i in range(3)]) for v in vs])), ('no vertex is strictly nearer', AND(*[le(norm2(vsub(r, p)), norm2(vsub(v, p))) for v in vs]))]
    add('O4.closestVertex', 'w_closest_vertex{T}', [In('v0', 3), In('v1', 3), In('v2', 3), In('p', 3), Out('r', 3)], cv, desc='closestVertex(v0,v1,v2,p): a vertex at minimal distance')
    def cvl(I, O, X):
        r = O['r']; vs = [I['v0'], I['v1'], I['v2']]; pos, d = I['l'][:3], I['l'][3:]
        def d2(v):
            w = vsub(v, pos); return rsub(norm2(w), rmul(rdot(w, d), rdot(w, d)))
        return [('is one of the vertices', OR(*[AND(*[eq(r[i], v[i]) for i in range(3)]) for v in vs])), ('no vertex is strictly nearer to the line', AND(*[le(d2(r), d2(v)) for v in vs]))]
    add('O4.closestVertex_line', 'w_closest_vertex_line{T}', [In('v0', 3), In('v1', 3), In('v2', 3), In('l', 6), Out('r', 3)], cvl, pre=lambda I: [unit(I['l'][3:])], sample=unit_sample([('l', 3)]), core=False, desc='closestVertex(v0,v1,v2,line): a vertex at minimal distance from the (unit) line')
    def rotp(I, O, X):
        pos, d = I['l'][:3], I['l'][3:]; p = I['p']; r = O['r']
        q = vadd(pos, vscale(d, rdot(vsub(p, pos), d))); s, c = X.sincos(I['ang'])
        return [('stays in the plane perpendicular to the axis', eq(rdot(vsub(r, q), d), rz(0))), ('distance to the axis kept', eq(norm2(vsub(r, q)), norm2(vsub(p, q)))),
                ('turned by the angle: (r-q).(p-q) == radius^2 cos', eq(rdot(vsub(r, q), vsub(p, q)), rmul(norm2(vsub(p, q)), c)))]
    add('O4.rotatePoint', 'w_rotate_point{T}', [In('p', 3), In('l', 6), Val('ang'), Out('r', 3)], rotp,
        pre=lambda I: boxed(I['p'] + I['l'][:3]) + [unit(I['l'][3:]), NOT(parallel(vsub(I['p'], I['l'][:3]), I['l'][3:]))], sample=unit_sample([('l', 3)]), core=False, budget=240,
        desc='rotatePoint: same distance from the axis, in the perpendicular plane, turned by the angle (point off the axis)')
    # ---- triangle
    def tri(I, O, X):
        pos, d = I['l'][:3], I['l'][3:]; v0, v1, v2 = I['v0'], I['v1'], I['v2']; ok = asb(O['ret']); pt = O['pt']; b = O['bary']
        comb = [radd(radd(rmul(b[0], v0[i]), rmul(b[1], v1[i])), rmul(b[2], v2[i])) for i in range(3)]
        return [('true => hit point on the line', IMPLIES(ok, parallel(vsub(pt, pos), d))),
                ('true => barycentrics reproduce the hit point', IMPLIES(ok, AND(*[eq(comb[i], pt[i]) for i in range(3)]))),
                ('true => barycentrics are non-negative and sum to 1', IMPLIES(ok, AND(eq(radd(radd(b[0], b[1]), b[2]), rz(1)), le(rz(0), b[0]), le(rz(0), b[1]), le(rz(0), b[2]))))]
    add('O5.triangle_intersect_hit', 'w_tri_intersect{T}', [In('l', 6), In('v0', 3), In('v1', 3), In('v2', 3), Out('pt', 3), Out('bary', 3), Out('front', 1)], tri,
        pre=lambda I: boxed(I['l'][:3] + I['v0'] + I['v1'] + I['v2']) + [unit(I['l'][3:])], sample=unit_sample([('l', 3)]), core=False, tier='thorough', budget=900, timeout_ms=60000, nvalid=0,
        desc='triangle intersect: when true, the hit point is on the line and equals the barycentric combination with non-negative weights summing to 1')
    def trifront(I, O, X):
        d = I['l'][3:]; v0, v1, v2 = I['v0'], I['v1'], I['v2']; ok = asb(O['ret'])
        n = cross3(vsub(v2, v1), vsub(v1, v0))
        return [('true => front is the documented flag ((v2-v1)%(v1-v0)) ^ dir < 0', IMPLIES(ok, AND(IMPLIES(eq(O['front'][0], rz(1)), lt(rdot(n, d), rz(0))), IMPLIES(lt(rdot(n, d), rz(0)), eq(O['front'][0], rz(1))))))]
    add('O5.triangle_front_flag', 'w_tri_intersect{T}', [In('l', 6), In('v0', 3), In('v1', 3), In('v2', 3), Out('pt', 3), Out('bary', 3), Out('front', 1)], trifront,
        pre=lambda I: boxed(I['l'][:3] + I['v0'] + I['v1'] + I['v2']) + [unit(I['l'][3:])], sample=unit_sample([('l', 3)]), budget=240, timeout_ms=20000, nvalid=0, setup=contracts_install_nodz, allow_divzero=True,
        desc='triangle intersect: when it reports a hit, front is exactly the documented flag - the sign of ((v2-v1)%(v1-v0)) ^ line.dir - wherever line.pos lies relative to the triangle (in front, on, or beyond its plane)')
    return cs


def build(chk):
    from props import contracts
    e = EngC(chk, 'geom', keep_calls=[contracts.LENGTH_RE])
    for T in ('d', 'f'):
        for c in cases(T):
            if T == 'f' and chk.tier != 'thorough' and c.budget > 150: continue
            e.add(c)
    chk.assumptions += ['lines passed to closestPointTo(line)/closestPoints/distanceTo(line)/Sphere3::intersectT and planes passed to reflect*/distanceTo have exactly unit direction / normal (what Line3::set and Plane3::set establish, proved separately)',
                        '"nearly parallel" for the guarded branches means |(d1.d2)^2 - 1| <= 2^-60 inside the 2^20 coordinate box']
    chk.outside += ['triangle intersect "true exactly for lines through the interior" (three nested square roots): hit-side conjunct is thorough-tier and budgeted, the converse is not attempted',
                    'plane x matrix (normalisation plus homogeneous divides): not attempted', 'Plane3/Line3 stream output']
