"""Shared engine-B unit for class half (used by C01-O6, C02, C03)."""
import os
from vf.common import *
from vf.runner import CbmcOb
from vf import build as B, natval


def prepare(chk):
    u = B.Unit(chk.wd, 'half', extra=[os.path.join(SRC, 'half.cpp')], noinline=True)
    m = u.parsed()
    h2f = [n[1:] for n in m.funcs if 'imath_half_to_float' in n and 'table' not in n]
    f2h = [n[1:] for n in m.funcs if 'imath_float_to_half' in n]
    if len(h2f) != 1 or len(f2h) != 1:
        raise ToolFailure('cannot find the out-of-line conversion functions in the IR: %r %r' % (h2f, f2h))
    ex = u.gen('exact')
    uf = u.gen('uf', uffunc=h2f + f2h)
    ufar = u.gen('ufar', uffunc=h2f + f2h, uf=['add', 'sub', 'mul', 'div'])
    nv, nf = natval.validate(chk, u, ex[0], ex[1], nvec=300, half_ret=[n for n in u.wrapper_names() if n.startswith('w_half_') and n[7:10] in ('add', 'sub', 'mul', 'div')])
    chk.functions.update({k: '%d IR instructions' % v for k, v in ex[2]['functions'].items()})
    H = os.path.join(VERIF, 'harness', 'c03', 'half_cpp.c')
    real = u.real_so('g++')
    def ob(oid, func, desc, mode, fallback=None, fallback_kw=None, **kw):
        if fallback is not None:
            o = ob(oid, func, desc, mode, **kw)
            k2 = dict(kw); k2.update(fallback_kw or {})
            o.fallback = ob(oid, func, desc, fallback, **k2)
            return o
        hp, bp, info = {'exact': ex, 'uf': uf, 'ufar': ufar}[mode]
        d = ('GEN_H="%s"' % os.path.basename(hp),)
        if mode == 'ufar': d += ('UF_ARITH',)
        if mode in ('uf', 'ufar'):
            d += ('UF_H2F=__CPROVER_uninterpreted_%s' % h2f[0], 'UF_F2H=__CPROVER_uninterpreted_%s' % f2h[0])
        kw.setdefault('backends', ('minisat', 'kissat'))
        kw.setdefault('unwind', 2)
        return CbmcOb(oid, [H, bp], func, defines=d, incs=(chk.wd,), desc=desc, engine='B',
                      mode={'exact': 'exact', 'uf': 'uf(imath_half_to_float, imath_float_to_half as uninterpreted pure callees)', 'ufar': 'uf(conversions as pure callees; fadd/fsub/fmul/fdiv uninterpreted on both sides)'}[mode],
                      replay_link=(real,), **kw)
    return u, ob
