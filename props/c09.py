"""C09 - transform builders act as documented; in-place forms pre-multiply (engine C, all reals)."""
from fractions import Fraction
from vf.engc import EngC
from props.symutil import *

ALL = 'all real parameters, fully general current matrix (all 16 / 9 / 4 entries free), exact-real semantics; sin/cos as a pair with s^2+c^2=1'


def emb(A3, n=4):
    """embed a (n-1)x(n-1) linear map into homogeneous nxn"""
    k = n - 1
    return [[A3[i][j] if i < k and j < k else rz(1 if i == j else 0) for j in range(n)] for i in range(n)]


def T44(t): return [[rz(1), rz(0), rz(0), rz(0)], [rz(0), rz(1), rz(0), rz(0)], [rz(0), rz(0), rz(1), rz(0)], [t[0], t[1], t[2], rz(1)]]
def S44(s): return [[s[0] if i == j == 0 else s[1] if i == j == 1 else s[2] if i == j == 2 else rz(1 if i == j else 0) for j in range(4)] for i in range(4)]
def H3(h): return emb([[rz(1), rz(0), rz(0)], [h[0], rz(1), rz(0)], [h[1], h[2], rz(1)]])
def H6(h):
    xy, xz, yz, yx, zx, zy = h
    return emb([[rz(1), yx, zx], [xy, rz(1), zy], [xz, yz, rz(1)]])
def T33(t): return [[rz(1), rz(0), rz(0)], [rz(0), rz(1), rz(0)], [t[0], t[1], rz(1)]]
def S33(s): return [[s[0], rz(0), rz(0)], [rz(0), s[1], rz(0)], [rz(0), rz(0), rz(1)]]
def H31(xy): return [[rz(1), rz(0), rz(0)], [xy, rz(1), rz(0)], [rz(0), rz(0), rz(1)]]
def H32(h): return [[rz(1), h[1], rz(0)], [h[0], rz(1), rz(0)], [rz(0), rz(0), rz(1)]]
def rot2(X, a):
    s, c = X.sincos(a); return [[c, s], [rneg(s), c]]
def euler_xyz(X, r):
    (sx, cx), (sy, cy), (sz, cz) = X.sincos(r[0]), X.sincos(r[1]), X.sincos(r[2])
    Rx = [[rz(1), rz(0), rz(0)], [rz(0), cx, sx], [rz(0), rneg(sx), cx]]
    Ry = [[cy, rz(0), rneg(sy)], [rz(0), rz(1), rz(0)], [sy, rz(0), cy]]
    Rz = [[cz, sz, rz(0)], [rneg(sz), cz, rz(0)], [rz(0), rz(0), rz(1)]]
    return emb(mm(mm(Rx, Ry), Rz))


def action(S, p, expect, n):
    """row vector (p,1) * S == (expect, 1) for the free point p"""
    img = vm(list(p) + [rz(1)], S)
    return [('p*M [%d]' % i, eq(img[i], expect[i])) for i in range(n - 1)] + [('p*M w', eq(img[n - 1], rz(1)))]


def cases(T):
    cs = []
    def add(name, func, args, claim, **kw):
        kw.setdefault('bounds', ALL)
        kw.setdefault('setup', lambda sym: __import__('props.contracts', fromlist=['x']).install(sym, sym.m))
        cs.append(Case('%s.%s' % (name, T), func, args, claim, T=T, **kw))
    def P(X, k): return [X.free('p%d' % i) for i in range(k)]
    # ---- Matrix44 set*
    add('O1.M44.setTranslation', 'w_m44_settranslation{T}', [Out('m', 16), In('t', 3)],
        lambda I, O, X: (lambda p: action(M(O['m'], 4), p, [radd(p[i], I['t'][i]) for i in range(3)], 4))(P(X, 3)), desc='setTranslation(t) sends every point p to p+t')
    add('O1.M44.setScale_vec', 'w_m44_setscale{T}', [Out('m', 16), In('s', 3)],
        lambda I, O, X: (lambda p: action(M(O['m'], 4), p, [rmul(p[i], I['s'][i]) for i in range(3)], 4))(P(X, 3)), desc='setScale(s) scales per axis')
    add('O1.M44.setScale_uniform', 'w_m44_setscale_u{T}', [Out('m', 16), Val('s')],
        lambda I, O, X: (lambda p: action(M(O['m'], 4), p, [rmul(p[i], I['s']) for i in range(3)], 4))(P(X, 3)), desc='setScale(T) scales uniformly')
    def sh3(I, O, X):
        p = P(X, 3); h = I['h']
        return action(M(O['m'], 4), p, [radd(radd(p[0], rmul(h[0], p[1])), rmul(h[1], p[2])), radd(p[1], rmul(h[2], p[2])), p[2]], 4)
    add('O1.M44.setShear_vec3', 'w_m44_setshear3{T}', [Out('m', 16), In('h', 3)], sh3, desc='setShear(Vec3): x += h0*y + h1*z; y += h2*z')
    def sh6(I, O, X):
        p = P(X, 3); xy, xz, yz, yx, zx, zy = I['h']
        return action(M(O['m'], 4), p, [radd(radd(p[0], rmul(xy, p[1])), rmul(xz, p[2])), radd(radd(p[1], rmul(yz, p[2])), rmul(yx, p[0])), radd(radd(p[2], rmul(zx, p[0])), rmul(zy, p[1]))], 4)
    add('O1.M44.setShear_shear6', 'w_m44_setshear6{T}', [Out('m', 16), In('h', 6)], sh6, desc='setShear(Shear6): x += xy*y + xz*z; y += yz*z + yx*x; z += zx*x + zy*y')
    add('O1.M44.translation', 'w_m44_translation{T}', [In('m', 16), Out('t', 3)], lambda I, O, X: veq(O['t'], [I['m'][12], I['m'][13], I['m'][14]]), desc='translation() returns the translation row')
    # ---- Matrix44 in-place: set* matrix times the (general) current matrix
    for nm, fn, k, B in (('translate', 'w_m44_translate', 3, T44), ('scale', 'w_m44_scale', 3, S44), ('shear_vec3', 'w_m44_shear3', 3, H3), ('shear_shear6', 'w_m44_shear6', 6, H6)):
        add('O1.M44.%s_premultiplies' % nm, fn + '{T}', [In('m', 16), In('v', k)], (lambda B: lambda I, O, X: meq(M(O['m'], 4), mm(B(I['v']), M(I['m'], 4))))(B),
            desc='%s(v): result == set-matrix(v) * current matrix, for a fully general current matrix' % nm)
    add('O1.M44.setEulerAngles', 'w_m44_seteuler{T}', [Out('m', 16), In('r', 3)], lambda I, O, X: meq(M(O['m'], 4), euler_xyz(X, I['r'])), desc='setEulerAngles(r) == Rx(r.x) Ry(r.y) Rz(r.z) (row-vector convention)')
    add('O1.M44.rotate_premultiplies', 'w_m44_rotate{T}', [In('m', 16), In('r', 3)], lambda I, O, X: meq(M(O['m'], 4), mm(euler_xyz(X, I['r']), M(I['m'], 4))),
        desc='rotate(r): result == setEulerAngles(r) * current matrix, general current matrix')
    def orth(I, O, X):
        R_ = M(O['m'], 4); R3 = [r[:3] for r in R_[:3]]
        return meq(mm(R3, transp(R3)), ident(3), 'R*Rt') + [('det == +1', eq(det(R3), rz(1)))] + [('affine row/col', AND(*[eq(R_[i][3], rz(0)) for i in range(3)] + [eq(R_[3][j], rz(0)) for j in range(3)] + [eq(R_[3][3], rz(1))]))]
    add('O1.M44.setEulerAngles_orthonormal', 'w_m44_seteuler{T}', [Out('m', 16), In('r', 3)], orth, desc='setEulerAngles: orthonormal, determinant +1')
    def axis_pre(I): return [ne(norm2(I['a']), rz(0))]
    def axisangle(I, O, X):
        a = I['a']; L2 = norm2(a); L = X.sqrt(L2); s, c = X.sincos(I['ang'])
        R_ = M(O['m'], 4); cl = []
        eps = {(0, 1): (2, 1), (1, 2): (0, 1), (2, 0): (1, 1), (1, 0): (2, -1), (2, 1): (0, -1), (0, 2): (1, -1)}
        for i in range(3):
            for j in range(3):
                # R[i][j] * L2 == c d_ij L2 + (1-c) a_i a_j + s eps_ijk a_k L
                rhs = radd(rmul(rmul(c, rz(1 if i == j else 0)), L2), rmul(rsub(rz(1), c), rmul(a[i], a[j])))
                if (i, j) in eps:
                    k, sg = eps[(i, j)]; rhs = radd(rhs, rmul(rz(sg), rmul(s, rmul(a[k], L))))
                cl.append(('R[%d][%d] Rodrigues' % (i, j), eq(rmul(R_[i][j], L2), rhs)))
        cl.append(('affine row/col', AND(*[eq(R_[i][3], rz(0)) for i in range(3)] + [eq(R_[3][j], rz(0)) for j in range(3)] + [eq(R_[3][3], rz(1))])))
        return cl
    add('O1.M44.setAxisAngle_rodrigues', 'w_m44_setaxisangle{T}', [Out('m', 16), In('a', 3), Val('ang')], axisangle, pre=axis_pre,
        desc='setAxisAngle(a, ang) == Rodrigues rotation about a/|a| for every non-zero axis', bounds='all non-zero axes, all angles', core=(T == 'f'), budget=240)
    def axis_fixed(I, O, X):
        R_ = M(O['m'], 4); R3 = [r[:3] for r in R_[:3]]
        return veq(vm(I['a'], R3), I['a'], 'a*R') + meq(mm(R3, transp(R3)), ident(3), 'R*Rt') + [('det == +1', eq(det(R3), rz(1)))]
    add('O1.M44.setAxisAngle_orthonormal_fixes_axis', 'w_m44_setaxisangle{T}', [Out('m', 16), In('a', 3), Val('ang')], axis_fixed, pre=axis_pre,
        desc='setAxisAngle: orthonormal, det +1, leaves the axis fixed, for every non-zero axis', bounds='all non-zero axes, all angles')
    # ---- Matrix33 (2-D homogeneous)
    add('O1.M33.setRotation', 'w_m33_setrotation{T}', [Out('m', 9), Val('r')], lambda I, O, X: meq(M(O['m'], 3), emb(rot2(X, I['r']), 3)), desc='Matrix33::setRotation(r) == [[c,s,0],[-s,c,0],[0,0,1]]')
    add('O1.M33.rotate_postmultiplies', 'w_m33_rotate{T}', [In('m', 9), Val('r')], lambda I, O, X: meq(M(O['m'], 3), mm(M(I['m'], 3), emb(rot2(X, I['r']), 3))),
        desc='Matrix33::rotate(r): result == current matrix * setRotation(r) (right multiplication), general current matrix')
    add('O1.M33.setScale_vec', 'w_m33_setscale{T}', [Out('m', 9), In('s', 2)], lambda I, O, X: meq(M(O['m'], 3), S33(I['s'])), desc='Matrix33::setScale(Vec2)')
    add('O1.M33.setScale_uniform', 'w_m33_setscale_u{T}', [Out('m', 9), Val('s')], lambda I, O, X: meq(M(O['m'], 3), S33([I['s'], I['s']])), desc='Matrix33::setScale(T)')
    add('O1.M33.setTranslation', 'w_m33_settranslation{T}', [Out('m', 9), In('t', 2)], lambda I, O, X: meq(M(O['m'], 3), T33(I['t'])), desc='Matrix33::setTranslation')
    add('O1.M33.translation', 'w_m33_translation{T}', [In('m', 9), Out('t', 2)], lambda I, O, X: veq(O['t'], [I['m'][6], I['m'][7]]), desc='Matrix33::translation() returns the translation row')
    add('O1.M33.setShear_scalar', 'w_m33_setshear1{T}', [Out('m', 9), Val('h')], lambda I, O, X: meq(M(O['m'], 3), H31(I['h'])), desc='Matrix33::setShear(xy): x += xy*y')
    add('O1.M33.setShear_vec2', 'w_m33_setshear2{T}', [Out('m', 9), In('h', 2)], lambda I, O, X: meq(M(O['m'], 3), H32(I['h'])), desc='Matrix33::setShear(Vec2): x += h.x*y, y += h.y*x')
    for nm, fn, arg, B in (('translate', 'w_m33_translate', In('v', 2), lambda I: T33(I['v'])), ('scale', 'w_m33_scale', In('v', 2), lambda I: S33(I['v'])),
                           ('shear_scalar', 'w_m33_shear1', Val('v'), lambda I: H31(I['v'])), ('shear_vec2', 'w_m33_shear2', In('v', 2), lambda I: H32(I['v']))):
        add('O1.M33.%s_premultiplies' % nm, fn + '{T}', [In('m', 9), arg], (lambda B: lambda I, O, X: meq(M(O['m'], 3), mm(B(I), M(I['m'], 3))))(B),
            desc='Matrix33::%s: result == set-matrix * current matrix, general current matrix' % nm)
    # ---- Matrix22
    add('O1.M22.setRotation', 'w_m22_setrotation{T}', [Out('m', 4), Val('r')], lambda I, O, X: meq(M(O['m'], 2), rot2(X, I['r'])), desc='Matrix22::setRotation(r) == [[c,s],[-s,c]]')
    add('O1.M22.rotate_postmultiplies', 'w_m22_rotate{T}', [In('m', 4), Val('r')], lambda I, O, X: meq(M(O['m'], 2), mm(M(I['m'], 2), rot2(X, I['r']))), desc='Matrix22::rotate(r): current matrix * setRotation(r)')
    add('O1.M22.setScale_vec', 'w_m22_setscale{T}', [Out('m', 4), In('s', 2)], lambda I, O, X: meq(M(O['m'], 2), [[I['s'][0], rz(0)], [rz(0), I['s'][1]]]), desc='Matrix22::setScale(Vec2)')
    add('O1.M22.setScale_uniform', 'w_m22_setscale_u{T}', [Out('m', 4), Val('s')], lambda I, O, X: meq(M(O['m'], 2), [[I['s'], rz(0)], [rz(0), I['s']]]), desc='Matrix22::setScale(T)')
    add('O1.M22.scale_premultiplies', 'w_m22_scale{T}', [In('m', 4), In('s', 2)], lambda I, O, X: meq(M(O['m'], 2), mm([[I['s'][0], rz(0)], [rz(0), I['s'][1]]], M(I['m'], 2))), desc='Matrix22::scale(s): diag(s) * current matrix')
    # ---- frame builders
    def frame(I, O, X):
        R_ = M(O['m'], 4); R3 = [r[:3] for r in R_[:3]]
        return meq(mm(R3, transp(R3)), ident(3), 'R*Rt') + [('right-handed: det == +1', eq(det(R3), rz(1)))] + \
            [('affine row/col', AND(*[eq(R_[i][3], rz(0)) for i in range(3)] + [eq(R_[3][j], rz(0)) for j in range(3)] + [eq(R_[3][3], rz(1))]))]
    add('O2.alignZAxisWithTargetDir_frame', 'w_alignz{T}', [Out('m', 16), In('t', 3), In('u', 3)], frame, budget=280, max_paths=300, timeout_ms=15000,
        desc='alignZAxisWithTargetDir: orthonormal right-handed frame on every path, including zero / parallel target and up directions', bounds='all real directions incl. zero and parallel', tier='quick')
    def zrow(I, O, X):
        R_ = M(O['m'], 4); t = I['t']; z = R_[2][:3]
        c = cross3(z, t)
        return [('z row parallel to target', OR(eq(norm2(t), rz(0)), AND(*[eq(c[i], rz(0)) for i in range(3)] + [le(rz(0), rdot(z, t))])))]
    add('O2.alignZAxisWithTargetDir_zaxis', 'w_alignz{T}', [Out('m', 16), In('t', 3), In('u', 3)], zrow, budget=280, max_paths=300, timeout_ms=15000,
        desc='alignZAxisWithTargetDir: the z axis maps onto the target direction (same sense) when the target is non-zero', tier='quick')
    def frame(I, O, X):
        m = M(O['m'], 4); t = I['t']; Rm = [r[:3] for r in m[:3]]
        cl = [('row %d has unit length' % i, eq(norm2(Rm[i]), rz(1))) for i in range(3)]
        cl += [('rows %d and %d are orthogonal' % (i, j), eq(rdot(Rm[i], Rm[j]), rz(0))) for i in range(3) for j in range(i + 1, 3)]
        cl += [('right-handed (row0 x row1 == row2) [%d]' % i, eq(cross3(Rm[0], Rm[1])[i], Rm[2][i])) for i in range(3)]
        cz = cross3(Rm[2], t)
        cl += [('z row parallel to the target, same sense', AND(*[eq(cz[i], rz(0)) for i in range(3)] + [le(rz(0), rdot(Rm[2], t))]))]
        cl += [('affine structure [%d]' % i, AND(eq(m[i][3], rz(1 if i == 3 else 0)), eq(m[3][i], rz(1 if i == 3 else 0)))) for i in range(4)]
        return cl
    def nodz(sym):
        from props import contracts
        contracts.install(sym, sym.m); sym.check_divzero = False
    add('O2.alignZAxisWithTargetDir_parallel_up', 'w_alignz_parallel{T}', [Out('m', 16), In('t', 3), Val('lam')], frame, pre=lambda I: [ne(norm2(I['t']), rz(0))] + [AND(R(v).n >= -64, R(v).n <= 64) for v in I['t'] + [I['lam']]],
        setup=nodz, allow_divzero=True, budget=240, max_paths=400, timeout_ms=15000, nvalid=0,
        desc='alignZAxisWithTargetDir with the up vector exactly parallel, anti-parallel or zero (up = lambda * target, every lambda): the result is still a right-handed orthonormal frame whose z row is the target direction - both fallback axes included',
        bounds='all non-zero targets and all lambda in [-64, 64]')
    def rotup(I, O, X):
        m = M(O['m'], 4); f = I['f']; t = I['t']; Rm = [r[:3] for r in m[:3]]
        cl = [('row %d has unit length' % i, eq(norm2(Rm[i]), rz(1))) for i in range(3)]
        cl += [('rows %d and %d are orthogonal' % (i, j), eq(rdot(Rm[i], Rm[j]), rz(0))) for i in range(3) for j in range(i + 1, 3)]
        img = vm(f, Rm); c = cross3(img, t)
        cl += [('from is carried onto the direction of to', AND(*[eq(c[i], rz(0)) for i in range(3)] + [le(rz(0), rdot(img, t))]))]
        return cl
    add('O2.rotationMatrixWithUpDir_parallel_up', 'w_rotupdir_parallel{T}', [Out('m', 16), In('f', 3), In('t', 3), Val('lam')], rotup,
        pre=lambda I: [ne(norm2(I['t']), rz(0)), ne(norm2(I['f']), rz(0))] + [AND(R(v).n >= -64, R(v).n <= 64) for v in I['t'] + I['f'] + [I['lam']]],
        setup=nodz, allow_divzero=True, budget=400, max_paths=2000, timeout_ms=20000, nvalid=0, core=False,
        desc='rotationMatrixWithUpDir with the up vector parallel to toDir (up = lambda * toDir): an orthonormal matrix carrying fromDir onto the direction of toDir',
        bounds='all non-zero from/to and all lambda in [-64, 64]')
    return cs


def build(chk):
    from props import contracts
    e = EngC(chk, 'builders', keep_calls=[contracts.LENGTH_RE])
    for T in ('d', 'f'):
        for c in cases(T):
            e.add(c)
    chk.assumptions += ['sin/cos of an argument are a pair of reals with s^2 + c^2 = 1 (one pair per distinct argument term); the claim uses the same pair',
                        'sqrt(x) is the non-negative real y with y*y = x']
    chk.outside += ['angles over many periods (libm periodicity is not repo code)', 'firstFrame/nextFrame/lastFrame (acos; not attempted)',
                    'rotationMatrix(from,to) (see C10 setRotation)', 'computeLocalFrame, addOffset, computeRSMatrix: not attempted']
