"""C01 - float<->half conversion is exact IEEE-754 binary16, round-to-nearest-even."""
import os
from vf.common import *
from vf.runner import CbmcOb
from vf import build as B


def engineA(chk, defines=()):
    H = os.path.join(VERIF, 'harness', 'c01', 'half_c.c')
    incs = (os.path.join(VERIF, 'stubs', 'inc'), SRC, B.config_dir(chk.wd))
    def ob(oid, func, desc, variant, **kw):
        d = tuple(defines) + {'notable': ('IMATH_HALF_NO_LOOKUP_TABLE',), 'table': (), 'symtable': ('TABLE_SYMBOLIC',)}[variant]
        kw.setdefault('backends', ('minisat', 'kissat'))
        return CbmcOb(oid, [H], func, defines=d, incs=incs, desc=desc, engine='A', unwind=2,
                      bounds='all bit patterns of the input type; variant=%s' % variant, **kw)
    return ob


def build_obs(chk):
    ob = engineA(chk)
    chk.functions.update({'imath_float_to_half (half.h as C, no-table and table builds)': 'engine A', 'imath_half_to_float (bit-shift build, table build)': 'engine A'})
    chk.stubs.append('x86intrin.h is an empty stub (only the F16C intrinsics come from it; unused without -mf16c)')
    chk.assumptions += ['CBMC C front end semantics for half.h compiled as C (gcc-compatible mode, __builtin_clz model)',
                        'reference oracle ref_f2h/ref_h2f in harness/c01/half_c.c written from the IEEE-754 definition; second oracle: CBMC native __CPROVER_floatbv[16][10]']
    for v in ('notable', 'table'):
        chk.add(ob('O1.f2h_rne_ref.' + v, 'h_f2h_ref', 'imath_float_to_half(f) == value-based RNE reference for all 2^32 floats incl. NaN payload rule', v, timeout=120))
        chk.add(ob('O1.f2h_rne_cprover16.' + v, 'h_f2h_native', 'imath_float_to_half(f) == CBMC IEEE binary16 cast, all non-NaN floats', v, timeout=120))
        chk.add(ob('O2.f2h_thresholds.' + v, 'h_f2h_corollaries', '>=65520 -> inf, <=2^-25 -> 0, subnormals correctly rounded, sign kept', v, timeout=120))
    v = 'notable'
    chk.add(ob('O4.h2f_ref.' + v, 'h_h2f_ref', 'imath_half_to_float(h) == denoted value for all 2^16 patterns (NaN sign/payload kept)', v, timeout=120))
    chk.add(ob('O4.h2f_cprover16.' + v, 'h_h2f_native', 'imath_half_to_float(h) == (float)(binary16) non-NaN', v, timeout=120))
    chk.add(ob('O5.roundtrip.' + v, 'h_roundtrip', 'h->f->h identity for all non-NaN h', v, timeout=120))
    chk.add(ob('O5.nan_roundtrip.' + v, 'h_nan_roundtrip', 'NaN stays NaN with sign and payload through h->f->h', v, timeout=120))
    chk.add(ob('O4.table_wiring', 'h_table_wiring', 'table build of imath_half_to_float returns exactly entry h of whatever table is installed (arbitrary table contents)', 'symtable', timeout=120, backends=('z3',)))
    table_slices(chk, ob, 'O4.table_slice')
    chk.add(ob('O4.table_single_query', 'h_table_all', 'table entry == denoted value, one query over all 65,536 entries', 'table', timeout=900, tier='thorough', backends=('kissat', 'z3'), core=False))


def table_slices(chk, ob, prefix):
    for k in range(64):
        chk.add(ob('%s.%02d' % (prefix, k), 'h_table_slice_%d' % k,
                   'shipped table, slice h>>10 == %d: entry == value denoted by h (hence == bit-shift path, given O4.h2f_ref.notable)' % k,
                   'table', timeout=240, backends=('cadical',) if chk.tier == 'quick' else ('cadical', 'z3'), weight=3, witness=(k in (0, 31, 32, 63))))
    chk.assumptions.append('table slices: the reachability-witness twin is run for slices 0,31,32,63 only (the 64 harnesses are one macro body)')


def build(chk):
    build_obs(chk)
    from props import c01cpp
    c01cpp.build_obs(chk)
