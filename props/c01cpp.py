"""C01-O6: the C++ spellings (constructor, operator=, cast) of the conversions."""
from props import halfunit


def build_obs(chk):
    u, ob = halfunit.prepare(chk)
    A = 'all bit patterns'
    chk.add(ob('O6.ctor_forwards', 'h_ctor_forwards', 'half(float).bits() and half::operator=(float) == imath_float_to_half(f) (callee uninterpreted)', 'uf', bounds=A))
    chk.add(ob('O6.cast_forwards', 'h_cast_forwards', 'float(half) == imath_half_to_float(bits) (callee uninterpreted)', 'uf', bounds=A))
    chk.add(ob('O6.ctor_exact', 'h_ctor_exact', 'half(float) / operator=(float) bits == RNE reference for all 2^32 floats (clang IR of the C++ TU)', 'exact', bounds=A, timeout=120))
    for k in range(64):
        chk.add(ob('O6.cast_exact_slice.%02d' % k, 'h_cast_exact_%d' % k, 'float(half) through the linked real table == denoted value, h>>10 == %d' % k, 'exact',
                   bounds='1,024 patterns of this slice', tier='thorough', backends=('cadical',), timeout=300, witness=(k in (0, 63))))
    chk.assumptions.append('O6 uf mode: imath_half_to_float / imath_float_to_half are uninterpreted (pure, readnone/readonly-on-constant) callees; their own behaviour is O1-O5')
