def build_obs(chk):
    pass
