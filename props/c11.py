"""C11 - Euler angles round-trip through matrices and quaternions in all 24 orders."""
from vf.engb import EngB
from vf.engc import EngC
from props.symutil import *
from props.c09 import euler_xyz

ORDERS = {'XYZ': 0x0101, 'XZY': 0x0001, 'YZX': 0x1101, 'YXZ': 0x1001, 'ZXY': 0x2101, 'ZYX': 0x2001, 'XZX': 0x0011, 'XYX': 0x0111, 'YXY': 0x1011, 'YZY': 0x1111, 'ZYZ': 0x2011, 'ZXZ': 0x2111,
          'XYZr': 0x2000, 'XZYr': 0x2100, 'YZXr': 0x1000, 'YXZr': 0x1100, 'ZXYr': 0x0000, 'ZYXr': 0x0100, 'XZXr': 0x2110, 'XYXr': 0x2010, 'YXYr': 0x1110, 'YZYr': 0x1010, 'ZYZr': 0x0110, 'ZXZr': 0x0010}
ALL = 'all real angle triples (sin/cos pairs with s^2+c^2=1; parity and double-angle instances added mechanically)'


def build(chk):
    e = EngB(chk, 'euler', vopts=dict(nvec=60, skip=tuple('w_euler_%s%s' % (n, t) for n in ('m33', 'm44', 'quat_m33', 'quat', 'extract_m33_roundtrip', 'extract33_rt', 'extract44_rt', 'extract33_angles', 'extract44_angles', 'order', 'setorder', 'xyzvec_roundtrip', 'set_xyzvec', 'to_xyzvec', 'xyzlayout_ctor') for t in 'fd') + ('w_m44_seteulerf', 'w_m44_seteulerd')),
             validate=False)
    e.variant('exact', only=['w_euler_orderf', 'w_euler_orderd', 'w_euler_setorderf', 'w_euler_xyzvec_roundtripf', 'w_euler_set_xyzvecf', 'w_euler_to_xyzvecf', 'w_euler_xyzlayout_ctorf'])
    chk.add(e.ob('O1.order_roundtrip', 'c11/euler.c', 'h_order', 'Euler(o).order() == o and setOrder(o) for each of the 24 enumerators (float and double)', bounds='symbolic order constrained to the 24 enumerators', timeout=120))
    chk.add(e.ob('O1.xyz_vector_permutation', 'c11/euler.c', 'h_xyz_permutation', 'non-repeated orders: setXYZVector / toXYZVector / XYZ-layout constructor are mutually inverse permutations of the angle slots',
                 unwind=5, bounds='all 12 non-repeated orders x all float bit patterns', timeout=120))
    ec = EngC(chk, 'euler')
    for T in ('d', 'f'):
        for name, o in ORDERS.items():
            if T == 'f' and chk.tier != 'thorough' and name not in ('XYZ', 'ZYXr', 'XZX', 'YXYr'): continue
            A3 = [Val('x'), Val('y'), Val('z'), Int(o)]
            def ortho(I, O, X):
                R3 = M(O['r'], 3)
                return meq(mm(R3, transp(R3)), ident(3), 'R*Rt') + [('det == +1', eq(det(R3), rz(1)))]
            ec.add(Case('O2.toMatrix33_orthonormal.%s.%s' % (name, T), 'w_euler_m33' + T, A3 + [Out('r', 9)], ortho, T=T, desc='order %s: toMatrix33() is orthonormal with determinant +1' % name, bounds=ALL, nvalid=2))
            def m44(I, O, X):
                R4 = M(O['r'], 4)
                R3 = [r[:3] for r in R4[:3]]
                return meq(mm(R3, transp(R3)), ident(3), 'R*Rt') + [('det == +1', eq(det(R3), rz(1))), ('affine row/col', AND(*[eq(R4[i][3], rz(0)) for i in range(3)] + [eq(R4[3][j], rz(0)) for j in range(3)] + [eq(R4[3][3], rz(1))]))]
            ec.add(Case('O2.toMatrix44_orthonormal.%s.%s' % (name, T), 'w_euler_m44' + T, A3 + [Out('r', 16)], m44, T=T, desc='order %s: toMatrix44() is a pure rotation (orthonormal, det +1, affine)' % name, bounds=ALL, nvalid=2))
        # composite obligations need two functions: the claim re-runs the second one symbolically through a helper case
    chk.assumptions += ['sin/cos of each distinct argument term are a pair of reals with s^2+c^2=1; instances of parity and double-angle identities are added mechanically for argument pairs with ratio -1, 2, -2 and listed in the evidence']
    from props import c11b
    c11b.build_obs(chk, ec, ORDERS)
    c11b.build_extract(chk, ec, ORDERS)
    c11b.build_extract_lock(chk, ec, ORDERS)
    chk.outside += ['angleMod / makeNear / nearestRotation / simpleXYZRotation (fmod and 2*pi arithmetic to single precision)', 'extract() at and near gimbal lock beyond the thorough-tier round trip', 'extractEulerXYZ/ZYX/extractEuler of ImathMatrixAlgo.h: not yet attempted']
