"""C20 - vectorised PyImath ops equal element-wise scalar ops under any task partition."""
from vf.engb import EngB
from vf.ll2c import cname

H = 'c20/tasks.c'
N = 2
B = 'every sub-range 0 <= start <= end <= L, every L <= N (N = 2 quick, 4 thorough); each array an arbitrary valid FixedArray<int> state: stride 1..2, direct or masked per the accessor kind with arbitrary increasing mask indices, arbitrary contents'


def build(chk):
    global N
    N = 4 if chk.tier == 'thorough' else 2
    e = EngB(chk, 'pytask', py=True, validate=False)
    e.variant('exact')
    va = 'VA_T=T_' + cname(e.u.parsed().funcs['@w_box_intersects_task'].params[1][0].to.name)
    def ob(oid, func, desc, **kw):
        kw.setdefault('timeout', 300); kw.setdefault('unwind', 6 * N + 8); kw.setdefault('backends', ('minisat', 'kissat'))
        o = e.ob(oid, H, func, desc, defines=('N=%d' % N, va), extra=('--pointer-overflow-check',), **kw)
        return o
    K = {'D': 'direct', 'M': 'masked', 'S': 'scalar'}
    def kinds(s): return '/'.join(K[c] for c in s)
    for k in ('DD', 'DM', 'MD', 'MM'):
        chk.add(ob('O1.VectorizedOperation1.%s' % k, 'h_neg_' + k, 'VectorizedOperation1<op_neg> result/arg = %s' % kinds(k), bounds=B))
    for k in ('DDD', 'DDM', 'DMD', 'DMM', 'MDD', 'MMM', 'DDS', 'DMS'):
        chk.add(ob('O1.VectorizedOperation2.%s' % k, 'h_add_' + k, 'VectorizedOperation2<op_add> result/arg1/arg2 = %s' % kinds(k), bounds=B))
    for k in ('DDDD', 'DMDM'):
        chk.add(ob('O1.VectorizedOperation3.%s' % k, 'h_clamp_' + k, 'VectorizedOperation3<clamp> result/args = %s' % kinds(k), bounds=B, timeout=400))
    for k in ('DD', 'DM', 'MD', 'MM', 'DS', 'MS'):
        chk.add(ob('O2.VectorizedVoidOperation1.%s' % k, 'h_iadd_' + k, 'VectorizedVoidOperation1<op_iadd> (in place) operand/arg = %s' % kinds(k), bounds=B))
    chk.add(ob('O2.VectorizedMaskedVoidOperation1', 'h_iadd_masked_raw', 'VectorizedMaskedVoidOperation1<op_iadd>: masked in-place operand, unmasked-length argument read at the raw index', bounds=B))
    for k in ('D', 'M'):
        chk.add(ob('O2.VectorizedVoidOperation0.%s' % k, 'h_ineg_' + k, 'VectorizedVoidOperation0 (in place, no argument) operand = %s' % kinds(k), bounds=B))
    chk.add(ob('O2.VectorizedVoidOperation2.DDM', 'h_iaddmul_DDM', 'VectorizedVoidOperation2 (a += b - c) operand/args = direct/direct/masked', bounds=B, timeout=400))
    chk.add(ob('O3.readonly_result_refused', 'h_readonly_result', 'a task cannot be built on a read-only result or in-place operand (direct or masked): raises, nothing written', bounds=B))
    chk.add(ob('O3.wrong_accessor_kind_refused', 'h_wrong_accessor_kind', 'a direct accessor on a masked reference is refused', bounds=B))
    chk.add(ob('O3.measure_arguments', 'h_measure_arguments', 'argument arrays of mismatched length raise std::invalid_argument before any element access; scalars adopt the array length', bounds='all length triples 0..%d' % N))
    chk.add(ob('O4.Box_IntersectsTask', 'h_box_intersects_task', 'hand-written task (PyImathBox.cpp): results[p] = box.intersects(points[p]) for start <= p < end only', bounds=B + '; Box3i and V3i points with arbitrary contents', timeout=400))
    chk.add(ob('O4.Box_ExtendByTask', 'h_box_extend_task', 'hand-written task (PyImathBox.cpp): ExtendByTask::execute(start,end,tid) extends the worker box boxes[tid] - whatever it already holds - by points[start..end) and leaves the other workers\' boxes alone (inductive step: any number of sub-ranges per worker id, any order)',
               bounds=B + '; three worker boxes with arbitrary contents, arbitrary worker id, V3i points with arbitrary contents', timeout=400, unwind=max(6 * N + 8, 20)))
    # ---- the real binding-level dispatcher (chooses task class and accessor kinds itself); Task::execute is a virtual call in the IR, so this
    # unit is translated with function addresses kept (vtables) and indirect calls emitted as C calls through the pointer
    ea = EngB(chk, 'pyapply', py=True, validate=False)
    ea.variant('ind', indirect=True)
    for am, bm in ((0, 0), (0, 1), (1, 0), (1, 1)):
        kn = '%s_%s' % ('masked' if am else 'direct', 'masked' if bm else 'direct')
        chk.add(ea.ob('O6.inplace_operator_dispatch.' + kn, 'c20/apply.c', 'h_apply_iadd', 'VectorizedVoidMaskableMemberFunction1<op_iadd>::apply (the function bound to a += b), a %s / b %s: pairs a[i] with b[i], or with b at a\'s raw index when a is masked and b has a\'s unmasked length; other length combinations raise and modify nothing' % (('masked' if am else 'direct'), ('masked' if bm else 'direct')),
                      variant='ind', defines=('N=%d' % N, 'AM=%d' % am, 'BM=%d' % bm), extra=('--object-bits', '12'), unwind=6 * N + 8, timeout=900, backends=('minisat', 'kissat', 'cadical'), core=(am == 0 and bm == 0),
                      bounds=B + '; dispatchTask inlined (lengths <= 200 run the task on the calling thread); virtual calls resolved by CBMC over the translated vtables'))
    # ---- hand-written floating-point tasks (PyImathQuat.cpp), FP arithmetic uninterpreted on both sides
    e2 = EngB(chk, 'pytask2', py=True, validate=False)
    e2.variant('ufar', uf=['add', 'sub', 'mul', 'div', 'sqrt'])
    f2 = e2.u.parsed().funcs
    N2 = 1 if chk.tier != 'thorough' else 2
    d2 = ('N=%d' % N2, 'QA_T=T_' + cname(f2['@w_qtask_mul'].params[0][0].to.name), 'VA3_T=T_' + cname(f2['@w_qtask_rotate'].params[1][0].to.name),
          'QEL_T=T_' + cname(f2['@w_qref_mul'].params[0][0].to.name), 'VEL_T=T_' + cname(f2['@w_qref_rotate'].params[1][0].to.name))
    B2 = 'every sub-range of arrays of length <= %d, arbitrary element bit patterns, arbitrary guard-zone contents; FP + - * / sqrt uninterpreted on both sides' % N2
    for hn, what in (('inverse', 'QuatArray_Inverse: result[i] = quats[i].inverse()'),):
        for rs, as_ in ((1, 2), (2, 1)):
            chk.add(e2.ob('O5.QuatTask.%s.rstride%d_astride%d' % (hn, rs, as_), 'c20/tasks2.c', 'h_qtask_' + hn, 'hand-written task (PyImathQuat.cpp) ' + what + ' for start <= i < end only', variant='ufar',
                          defines=d2 + ('RSTRIDE=%d' % rs, 'ASTRIDE=%d' % as_), extra=('--pointer-overflow-check', '--object-bits', '13'), unwind=max(2 * N2 + 1, 4) + 2, timeout=600, backends=('z3', 'kissat', 'minisat'), bounds=B2 + '; direct arrays, result stride %d, argument stride %d' % (rs, as_)))
    chk.outside += ['hand-written FP tasks with two argument arrays (QuatArray_Mul, RotateVector, RmulVec3Array; Matrix44/Matrix33 array tasks): harnesses exist (harness/c20/tasks2.c) but CBMC did not decide them within 400 s / ran out of memory at length 1, so they are not registered']
    chk.stubs += ['__cxa_begin_catch / std::terminate (unreachable)', 'shared_array reference counts start at 1000']
    chk.assumptions += ['tasks are built by the wrapper exactly as VectorizedFunctionN::apply builds them: one accessor per argument of the kind matching the array (direct / masked / scalar wrapper)',
                        'pen-and-paper step: (i) result[i] == op(args[i]) on [start,end), (ii) nothing else written, (iii) arguments only read, for EVERY sub-range  ==>  the outcome of any partition of [0,len), in any order or concurrently, equals the single-range outcome; threads themselves are not encoded',
                        'counterexamples are replayed natively: the same harness, compiled by gcc, builds the FixedArray objects as layout-identical structs and calls the g++-built real wrapper (real task classes) from the shared object']
    chk.outside += ['dispatchTask / WorkerPool hand-off (virtual dispatch: not encodable by the translator)', 'the enumeration of ALL exported entry points and boost.python binding glue', 'GIL release/re-acquire, real threads',
                    'hand-written tasks of PyImathQuat/Matrix33/Matrix44/Frustum (floating-point element operations): not yet covered', 'element types other than int']
    chk.not_encodable += ['dispatchTask (virtual calls on Task and WorkerPool)', 'boost.python registration templates']


def no_native_replay(chk, ob, inp, r):
    """replay on the gcc-built generated C (same translated code, executed natively with the solver's inputs)"""
    import os
    from vf.common import run, VERIF
    exe = os.path.join(chk.wd, 'c20_replay_%s' % ob.func)
    hp = [d for d in ob.defines if d.startswith('GEN_H')]
    cmd = ['gcc', '-O1', '-w', '-DVERIF_REPLAY', '-DHFUNC=' + ob.func, '-fsanitize=address,undefined', '-fno-sanitize-recover=all', '-I', os.path.join(VERIF, 'harness'), '-I', chk.wd] + ['-D' + d for d in ob.defines] + \
          [f for f in ob.files] + [os.path.join(VERIF, 'harness', 'replay_main.c'), os.path.join(VERIF, 'wrappers', 'verif_rt.c'), '-o', exe, '-lm']
    rc, out, err, dt = run(cmd, timeout=600)
    if rc != 0: return False, 'replay build failed: ' + (out + err)[-500:]
    rc, out, err, dt = run([exe, inp], timeout=120)
    return (rc != 0 and ('REPLAY-FAIL' in out or 'AddressSanitizer' in err or 'runtime error' in err)), 'replay on the natively compiled generated C (not the g++ build): ' + (out + err)[-400:]
