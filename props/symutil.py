"""Small linear-algebra helpers over irsym.Rat for writing textbook claims (polymorphic: z3 terms or Fractions)."""
from vf.irsym import Rat, R, rz, radd, rsub, rmul, rdiv, rneg, rsum, rdot, eq, le, lt, ne, AND, OR, NOT, IMPLIES
from vf.symcase import Case, In, Out, Val, Int, Raw
from fractions import Fraction


def M(v, n): return [[v[n * i + j] for j in range(n)] for i in range(n)]
def ident(n): return [[rz(1 if i == j else 0) for j in range(n)] for i in range(n)]
def mm(A, B):
    n = len(A); k = len(B); m = len(B[0])
    return [[rsum(rmul(A[i][t], B[t][j]) for t in range(k)) for j in range(m)] for i in range(n)]
def transp(A): return [[A[j][i] for j in range(len(A))] for i in range(len(A[0]))]
def vm(v, A): return [rsum(rmul(v[i], A[i][j]) for i in range(len(v))) for j in range(len(A[0]))]
def det(A):
    n = len(A)
    if n == 1: return R(A[0][0])
    if n == 2: return rsub(rmul(A[0][0], A[1][1]), rmul(A[0][1], A[1][0]))
    acc = rz(0)
    for c in range(n):
        mnr = det([[A[i][j] for j in range(n) if j != c] for i in range(1, n)])
        t = rmul(A[0][c], mnr)
        acc = radd(acc, t) if c % 2 == 0 else rsub(acc, t)
    return acc
def minor(A, r, c): return det([[A[i][j] for j in range(len(A)) if j != c] for i in range(len(A)) if i != r])
def cross3(a, b):
    return [rsub(rmul(a[1], b[2]), rmul(a[2], b[1])), rsub(rmul(a[2], b[0]), rmul(a[0], b[2])), rsub(rmul(a[0], b[1]), rmul(a[1], b[0]))]
def meq(A, B, tag='m'):
    """one labelled claim per entry (slicing: one solver query per output entry)"""
    return [('%s[%d][%d]' % (tag, i, j), eq(A[i][j], B[i][j])) for i in range(len(A)) for j in range(len(A[0]))]
def veq(a, b, tag='v'): return [('%s[%d]' % (tag, i), eq(a[i], b[i])) for i in range(len(a))]
def allof(cl): return AND(*[f for _, f in cl])
def norm2(v): return rdot(v, v)
def box(vs, lo, hi): return [AND(R(v).n >= lo, R(v).n <= hi) if not R(v).conc() else (lo <= R(v).frac() <= hi) for v in vs]
