"""C07 - throwing and non-throwing variants of every operation agree."""
from vf.engb import EngB

UFB = 'all input bit patterns (FP + - * / and sqrt uninterpreted on both sides; comparisons, abs and guards exact)'
UF = ['add', 'sub', 'mul', 'div', 'sqrt']


def build(chk):
    # Vec normalize family: the skeleton harness of C08 is exactly the pair statement
    ev = EngB(chk, 'veclen', vopts=dict(nvec=100)); ev.variant('ufar', uf=UF)
    for n in (2, 3, 4):
        chk.add(ev.ob('O1.normalize_family.V%df' % n, 'c08/len.c', 'h_normalize_skeleton_%d' % n,
                      'Vec%df normalize/normalizeExc/normalizeNonNull and normalized*: when the checked form returns all forms agree bit for bit; normalizeExc/normalizedExc throw std::domain_error exactly when the unchecked form reports the zero vector' % n,
                      variant='ufar', defines=('UF_ARITH',), unwind=n + 2, bounds=UFB, timeout=240, backends=('z3', 'kissat', 'minisat')))
    ep = EngB(chk, 'pairs', vopts=dict(nvec=100, bufsizes={f: {0: 24} for f in ('w_fr_proj', 'w_fr_proj_exc', 'w_fr_p2s', 'w_fr_p2s_exc', 'w_fr_nz2d', 'w_fr_nz2d_exc', 'w_fr_sr', 'w_fr_sr_exc', 'w_fr_wr', 'w_fr_wr_exc', 'w_fr_aspect', 'w_fr_aspect_exc', 'w_fr_d2z', 'w_fr_d2z_exc', 'w_fr_z2d', 'w_fr_z2d_exc', 'w_fr_setfov', 'w_fr_setfov_exc')}))
    ep.variant('ufar', uf=UF)
    chk.add(ep.ob('O1.Vec3_from_Vec4_InfException', 'c07/vec4.c', 'h_v3_from_v4', 'Vec3(Vec4, InfException) == Vec3(Vec4) whenever it returns; throws std::domain_error only; never throws for |w| >= 1',
                  variant='ufar', unwind=6, bounds=UFB, timeout=120, backends=('z3', 'kissat', 'minisat')))
    for nm in ('projection', 'point_to_screen', 'normalizedZToDepth', 'screenRadius', 'worldRadius', 'aspect', 'ZToDepth', 'DepthToZ', 'setfov'):
        chk.add(ep.ob('O1.Frustum.%s' % nm, 'c07/frustum.c', 'h_fr_' + nm, 'Frustum<float>: the ...Exc form of %s returns exactly what the unchecked form returns whenever it returns; std::domain_error only' % nm,
                      variant='ufar', unwind=18, bounds=UFB + '; both projection kinds', timeout=240, backends=('z3', 'kissat', 'minisat')))
    chk.add(ep.ob('O1.Frustum.ZToDepth_empty_range', 'c07/frustum.c', 'h_fr_ZToDepth_zero_range', 'Frustum<float>::ZToDepthExc rejects an empty z range (int(zmax-zmin) == 0) with std::domain_error',
                  variant='ufar', unwind=18, bounds=UFB, timeout=240, backends=('z3', 'kissat', 'minisat')))
    ei = EngB(chk, 'inverse', vopts=dict(nvec=100)); ei.variant('ufar', uf=UF)
    for nm, heavy in (('inverse22', 0), ('invert22', 0), ('inverse33', 0), ('invert33', 0), ('gjInverse33', 1), ('gjInvert33', 1), ('inverse44', 2), ('invert44', 2), ('gjInverse44', 2), ('gjInvert44', 2)):
        n = int(nm[-1])
        chk.add(ei.ob('O1.Matrix.%s' % nm, 'c07/matrix.c', 'h_' + nm, 'Matrix%d%d<float>::%s(): f() == f(false); f(true) equals f() whenever it returns and throws std::invalid_argument only where f() returns the identity' % (n, n, nm[:-2]),
                      variant='ufar', unwind=n * n + 2, bounds=UFB, timeout=[240, 900, 900][heavy], backends=('z3', 'kissat') if heavy < 2 else ('kissat', 'z3', 'cadical'),
                      tier='thorough' if heavy >= 1 else 'quick', core=(heavy == 0)))
    # 4x4 pairs on pinned families (identity except the listed entries, which are arbitrary): quick-tier coverage of the routing decisions
    for fam, mask in (('translation_row', 0x7000),):      # the other pinned families tried (last column, last row and column) are not decided in 15 min by any back end
        for nm in ('inverse44', 'invert44'):
            chk.add(ei.ob('O1.Matrix.%s.%s' % (nm, fam), 'c07/matrix.c', 'h_' + nm, 'Matrix44<float>::%s() vs (false) vs (true) on matrices that are the identity except for an arbitrary %s: same bits whenever the checked form returns; throws std::invalid_argument only where the unchecked form returns the identity' % (nm[:-2], fam.replace('_', ' ')),
                          variant='ufar', defines=('PINMASK=0x%X' % mask,), unwind=18, bounds=UFB + '; the entries outside the family are pinned to the identity', timeout=400, backends=('z3', 'kissat', 'minisat')))
    for nm, heavy in (('invert_eq_inverse22', 0), ('invert_eq_inverse33', 0), ('gjInvert_eq_gjInverse33', 1), ('invert_eq_inverse44', 2), ('gjInvert_eq_gjInverse44', 2)):
        n = int(nm[-1])
        chk.add(ei.ob('O2.inplace.%s' % nm, 'c07/matrix.c', 'h_' + nm, 'in-place form leaves exactly what the value-returning form returns (Matrix%d%d<float>)' % (n, n), variant='ufar', unwind=n * n + 2, bounds=UFB,
                      timeout=[240, 900, 900][heavy], backends=('z3', 'kissat') if heavy < 2 else ('kissat', 'z3', 'cadical'), tier='thorough' if heavy == 2 else 'quick', core=(heavy == 0)))
    chk.assumptions += ['arithmetic is abstracted identically on both sides (uninterpreted functions; + and * commutative by construction): the obligations decide that the two textual copies perform the same operations under the same guards, for every input bit pattern',
                        'Frustum objects are built through the public constructor from six arbitrary parameters and the projection kind']
    chk.outside += ['"overflow guards fire only within a factor four of the type maximum" and "well-conditioned input never throws" (need accuracy reasoning)',
                    'matrix-decomposition functions with an exc flag (extractScaling/extractSHRT/...): see C12', 'Frustum::localToScreenExc (protected; reached through projectPointToScreenExc)']
