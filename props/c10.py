"""C10 - quaternion, matrix and axis-angle rotations are mutually consistent (engine C)."""
from fractions import Fraction
from vf.engc import EngC
from props.symutil import *
from props.c15 import vsub, vadd, vscale, unit, parallel, along
from props import contracts

UNITQ = 'all unit quaternions (r^2+|v|^2 == 1, both signs, any w) and all real vectors'


def qmat(q):
    """textbook rotation matrix of a unit quaternion (r, x, y, z), row-vector convention as documented for toMatrix33"""
    r, x, y, z = q
    two = rz(2)
    def m(a, b): return rmul(a, b)
    return [[rsub(rz(1), rmul(two, radd(m(y, y), m(z, z)))), rmul(two, radd(m(x, y), m(z, r))), rmul(two, rsub(m(z, x), m(y, r)))],
            [rmul(two, rsub(m(x, y), m(z, r))), rsub(rz(1), rmul(two, radd(m(z, z), m(x, x)))), rmul(two, radd(m(y, z), m(x, r)))],
            [rmul(two, radd(m(z, x), m(y, r))), rmul(two, rsub(m(y, z), m(x, r))), rsub(rz(1), rmul(two, radd(m(y, y), m(x, x))))]]


def uq(q): return eq(rdot(q, q), rz(1))


def stereo(w):
    """rational parametrisation of the unit quaternions (all except r == -1): q = (1-|w|^2, 2w) / (1+|w|^2)"""
    s_ = rsum(rmul(x, x) for x in w); D = radd(rz(1), s_)
    return [rdiv(rsub(rz(1), s_), D)] + [rdiv(rmul(rz(2), x), D) for x in w]


def qsample(names):
    U = [(Fraction(1, 2), Fraction(1, 2), Fraction(1, 2), Fraction(1, 2)), (Fraction(0), Fraction(3, 5), Fraction(0), Fraction(4, 5)), (Fraction(2, 3), Fraction(-1, 3), Fraction(2, 3), Fraction(0)),
         (Fraction(-1, 2), Fraction(1, 2), Fraction(-1, 2), Fraction(1, 2)), (Fraction(1), Fraction(0), Fraction(0), Fraction(0)), (Fraction(2, 7), Fraction(3, 7), Fraction(6, 7), Fraction(0)), (Fraction(1, 9), Fraction(4, 9), Fraction(-8, 9), Fraction(0))]
    def f(rng, inp):
        for nm in names: inp[nm] = list(rng.choice(U))
        return inp
    return f


def cases(T):
    cs = []
    setup = lambda sym: contracts.install(sym, sym.m)
    def add(name, func, args, claim, **kw):
        kw.setdefault('bounds', UNITQ); kw.setdefault('setup', setup)
        cs.append(Case('%s.%s' % (name, T), func, args, claim, T=T, **kw))
    U1 = lambda I: [uq(I['q'])]
    add('O1.toMatrix33_rotation', 'w_q_m33{T}', [In('q', 4), Out('m', 9)], lambda I, O, X: meq(M(O['m'], 3), qmat(I['q'])) , desc='toMatrix33 is the documented matrix of q')
    def ortho(I, O, X):
        R3 = M(O['m'], 3); return meq(mm(R3, transp(R3)), ident(3), 'R*Rt') + [('det == +1', eq(det(R3), rz(1)))]
    add('O1.toMatrix33_orthonormal', 'w_q_m33{T}', [In('q', 4), Out('m', 9)], ortho, pre=U1, sample=qsample(['q']), desc='toMatrix33 of a unit quaternion is orthonormal with determinant +1')
    def m44(I, O, X):
        R4 = M(O['m'], 4); return meq([r[:3] for r in R4[:3]], qmat(I['q'])) + [('affine row/col', AND(*[eq(R4[i][3], rz(0)) for i in range(3)] + [eq(R4[3][j], rz(0)) for j in range(3)] + [eq(R4[3][3], rz(1))]))]
    add('O1.toMatrix44_same_rotation', 'w_q_m44{T}', [In('q', 4), Out('m', 16)], m44, desc='toMatrix44 holds the same rotation as toMatrix33, affine')
    add('O1.rotateVector_equals_matrix', 'w_q_rotate{T}', [In('q', 4), In('v', 3), Out('r', 3)], lambda I, O, X: veq(O['r'], vm(I['v'], qmat(I['q']))), pre=U1, sample=qsample(['q']), desc='rotateVector(v) == v * toMatrix33() for unit q')
    add('O1.vec_times_quat_equals_matrix', 'w_q_vtimesq{T}', [In('q', 4), In('v', 3), Out('r', 3)], lambda I, O, X: veq(O['r'], vm(I['v'], qmat(I['q']))), pre=U1, sample=qsample(['q']), desc='v * q == v * toMatrix33() for unit q')
    def prod(I, O, X):
        A, Bm, P = qmat(I['a']), qmat(I['b']), M(O['m'], 3)
        return meq(P, mm(Bm, A), 'M(q1*q2) vs M(q2)*M(q1)')
    add('O2.product_is_matrix_product', 'w_q_mul_m33{T}', [In('a', 4), In('b', 4), Out('m', 9)], prod, pre=lambda I: [uq(I['a']), uq(I['b'])], sample=qsample(['a', 'b']), core=False, tier='thorough', budget=900, timeout_ms=90000, desc='toMatrix33(q1*q2) == toMatrix33(q2) * toMatrix33(q1): quaternion multiplication corresponds to multiplication of the rotation matrices (row-vector order: q2 acts first)')
    NZ = lambda I: [lt(rz(0), rdot(I['q'], I['q']))]
    add('O3.q_times_inverse_is_identity', 'w_q_times_inverse{T}', [In('q', 4), Out('r', 4)], lambda I, O, X: veq(O['r'], [rz(1), rz(0), rz(0), rz(0)], 'q'), pre=NZ, bounds='all non-zero quaternions', desc='q * inverse(q) == (1,0,0,0)')
    def inv(I, O, X):
        q = I['q']; n2 = rdot(q, q); r = O['r']
        return [('component %d' % i, eq(rmul(r[i], n2), (q[0] if i == 0 else rneg(q[i])))) for i in range(4)]
    add('O3.inverse_is_conjugate_over_norm2', 'w_q_inverse{T}', [In('q', 4), Out('r', 4)], inv, pre=NZ, bounds='all non-zero quaternions', desc='inverse(q) == ~q / (q^q)')
    add('O3.invert_equals_inverse', 'w_q_invert{T}', [In('q', 4), Out('r', 4)], inv, pre=NZ, bounds='all non-zero quaternions', desc='invert() leaves inverse()')
    add('O3.conjugate', 'w_q_conj{T}', [In('q', 4), Out('r', 4)], lambda I, O, X: veq(O['r'], [I['q'][0]] + [rneg(x) for x in I['q'][1:]], 'q'), bounds='all quaternions', desc='~q == (r, -v)')
    def nrm(I, O, X):
        q = I['q']; L = X.sqrt(rdot(q, q)); r = O['r']
        return [('component %d: r_i * |q| == q_i' % i, eq(rmul(r[i], L), q[i])) for i in range(4)] + [('unit', uq(r))]
    for fn in ('normalized', 'normalize'):
        add('O3.%s' % fn, 'w_q_%s{T}' % fn, [In('q', 4), Out('r', 4)], nrm, pre=NZ, bounds='all non-zero quaternions', desc='%s: q/|q|, unit' % fn)
    def axang(I, O, X):
        a = I['a']; L2 = norm2(a); L = X.sqrt(L2); s, c = X.sincos(I['ang']); R_ = M(O['m'], 3); cl = []
        eps = {(0, 1): (2, 1), (1, 2): (0, 1), (2, 0): (1, 1), (1, 0): (2, -1), (2, 1): (0, -1), (0, 2): (1, -1)}
        for i in range(3):
            for j in range(3):
                rhs = radd(rmul(rmul(c, rz(1 if i == j else 0)), L2), rmul(rsub(rz(1), c), rmul(a[i], a[j])))
                if (i, j) in eps:
                    k, sg = eps[(i, j)]; rhs = radd(rhs, rmul(rz(sg), rmul(s, rmul(a[k], L))))
                cl.append(('R[%d][%d] Rodrigues' % (i, j), eq(rmul(R_[i][j], L2), rhs)))
        return cl
    add('O4.Quat_setAxisAngle_equals_Matrix44_setAxisAngle', 'w_q_setaxisangle_m33{T}', [In('a', 3), Val('ang'), Out('m', 9)], axang, pre=lambda I: [lt(rz(0), norm2(I['a']))], budget=240, timeout_ms=30000,
        bounds='all non-zero axes, all angles; half-angle identities instantiated mechanically', desc='Quat::setAxisAngle(a, ang).toMatrix33() is the same Rodrigues rotation that Matrix44::setAxisAngle builds (C09)')
    def extr(I, O, X):
        q = I['q']; r = O['r']
        return [('extractQuat(q.toMatrix44()) == q or -q', OR(AND(*[eq(r[i], q[i]) for i in range(4)]), AND(*[eq(r[i], rneg(q[i])) for i in range(4)])))]
    add('O5.extractQuat_roundtrip', 'w_q_extract{T}', [In('q', 4), Out('r', 4)], extr, pre=U1, sample=qsample(['q']), budget=280, timeout_ms=30000, core=False, desc='extractQuat(q.toMatrix44()) is q or -q on every branch (trace > 0 and the three largest-diagonal branches)')
    def setrot(I, O, X):
        f, t, q = I['f'], I['t'], O['q']
        img = vm(f, qmat(q))
        return [('result is a unit quaternion', uq(q)), ('from is carried onto the direction of to', AND(parallel(img, t), lt(rz(0), rdot(img, t))))]
    add('O6.setRotation', 'w_q_setrotation{T}', [In('f', 3), In('t', 3), Out('q', 4)], setrot, pre=lambda I: [lt(rz(0), norm2(I['f'])), lt(rz(0), norm2(I['t']))], budget=600, timeout_ms=60000, core=False, tier='thorough',
        bounds='all pairs of non-zero vectors incl. opposite ones', desc='setRotation(from,to): a unit rotation carrying from onto the direction of to (all branches: <90, >90 split, antipodal fallback)')
    # ---- slerp endpoints (atan2 modelled exactly through sin/cos of its result; the angle itself stays unconstrained, so both sides of the
    # sinx_over_x small-angle test are explored)
    def slerp_setup(sym):
        contracts.install(sym, sym.m); contracts.install_atan2(sym); sym.check_divzero = False; sym.atan2_angle_bound = True
    def same(a, b): return AND(*[eq(a[i], b[i]) for i in range(4)])
    def qdot(a, b): return rsum(rmul(a[i], b[i]) for i in range(4))
    notanti = lambda I: [uq(I['a']), uq(I['b']), NOT(AND(*[eq(I['a'][i], rneg(I['b'][i])) for i in range(4)]))]
    for t, which in ((0, 'a'), (1, 'b')):
        add('O7.slerp_endpoint_t%d' % t, 'w_q_slerp_t%d{T}' % t, [In('a', 4), In('b', 4), Out('r', 4)], (lambda which: lambda I, O, X: [('slerp(q1,q2,%s) is the endpoint' % ('0' if which == 'a' else '1'), same(O['r'], I[which]))])(which),
            pre=notanti, setup=slerp_setup, allow_divzero=True, nvalid=0, budget=200, timeout_ms=20000, desc='slerp(q1,q2,%d) == q%d for unit quaternions that are not antipodal (both the small-angle and the sin(x)/x branch)' % (t, t + 1),
            bounds='all unit q1, q2 with q1 != -q2')
    # extrapolation: slerp(q1,q2,2) is q1 reflected about q2 and slerp(q1,q2,-1) is q2 reflected about q1 (angle advances linearly: 2a resp. -a);
    # needs sin(2x) = 2 sin x cos x (instantiated mechanically) and |sin x| <= |x| to rule out the small-angle branch when q1.q2 <= 9/10
    def refl(p, about):
        d = qdot(p, about)
        return [rsub(rmul(rmul(rz(2), d), about[i]), p[i]) for i in range(4)]
    apart = lambda I: [uq(I['a']), uq(I['b']), le(qdot(I['a'], I['b']), rz(Fraction(9, 10))), le(rz(Fraction(-9, 10)), qdot(I['a'], I['b']))]
    add('O7.slerp_extrapolate_t2', 'w_q_slerp_t2{T}', [In('a', 4), In('b', 4), Out('r', 4)], lambda I, O, X: [('slerp(q1,q2,2) == 2(q1.q2)q2 - q1', same(O['r'], refl(I['a'], I['b'])))],
        pre=apart, setup=slerp_setup, allow_divzero=True, nvalid=0, budget=400, timeout_ms=40000, core=False,
        desc='slerp(q1,q2,2) is q1 reflected about q2: the 4-D angle keeps advancing linearly beyond t = 1', bounds='all unit q1, q2 with |q1.q2| <= 9/10')
    add('O7.slerp_extrapolate_tm1', 'w_q_slerp_tm1{T}', [In('a', 4), In('b', 4), Out('r', 4)], lambda I, O, X: [('slerp(q1,q2,-1) == 2(q1.q2)q1 - q2', same(O['r'], refl(I['b'], I['a'])))],
        pre=apart, setup=slerp_setup, allow_divzero=True, nvalid=0, budget=400, timeout_ms=40000, core=False,
        desc='slerp(q1,q2,-1) is q2 reflected about q1: the angle runs backwards linearly below t = 0', bounds='all unit q1, q2 with |q1.q2| <= 9/10')
    add('O7.slerpShortestArc_endpoint_t0', 'w_q_slerp_shortest_t0{T}', [In('a', 4), In('b', 4), Out('r', 4)], lambda I, O, X: [('slerpShortestArc(q1,q2,0) == q1', same(O['r'], I['a']))],
        pre=lambda I: [uq(I['a']), uq(I['b']), ne(qdot(I['a'], I['b']), rz(0))], setup=slerp_setup, allow_divzero=True, nvalid=0, budget=200, timeout_ms=20000,
        desc='slerpShortestArc(q1,q2,0) == q1', bounds='all unit q1, q2 that are not orthogonal in 4-D')
    add('O7.slerpShortestArc_endpoint_t1', 'w_q_slerp_shortest_t1{T}', [In('a', 4), In('b', 4), Out('r', 4)],
        lambda I, O, X: [('slerpShortestArc(q1,q2,1) is q2 or -q2, whichever lies within 90 degrees of q1 (never the long way round)',
                          AND(OR(same(O['r'], I['b']), same(O['r'], [rneg(x) for x in I['b']])), le(rz(0), qdot(O['r'], I['a']))))],
        pre=lambda I: [uq(I['a']), uq(I['b'])], setup=slerp_setup, allow_divzero=True, nvalid=0, budget=200, timeout_ms=20000,
        desc='slerpShortestArc(q1,q2,1) is the representative of q2 on q1\'s hemisphere', bounds='all unit q1, q2')
    return cs


def build(chk):
    from vf.engb import EngB
    eb = EngB(chk, 'quat', validate=False)
    eb.variant('exact', only=['w_q_extractf'])
    for major in range(3):
        for minor in range(3):
            if minor == major: continue
            chk.add(eb.ob('O5.extractQuat_near_axis_ieee.major%s_minor%s' % ('xyz'[major], 'xyz'[minor]), 'c10/extract.c', 'h_extract_near_axis',
                          'IEEE single precision: extractQuat(q.toMatrix44()) is q or -q to 1e-4 for q = (0; +-e_%s +- eps e_%s), every eps in [2^-12, 2^-6] - rotations by pi about an axis a hair off a coordinate axis, where choosing any but the largest diagonal entry divides by a cancelled quantity' % ('xyz'[major], 'xyz'[minor]),
                          defines=('MAJOR=%d' % major, 'MINOR=%d' % minor), unwind=6, timeout=600, backends=('kissat', 'cadical', 'minisat'),
                          bounds='eps: every float in [2^-12, 2^-6], both signs of both components; w = 0 and the third component 0'))
    e = EngC(chk, 'quat', keep_calls=[contracts.LENGTH_RE])
    for T in ('d', 'f'):
        for c in cases(T):
            if T == 'f' and chk.tier != 'thorough' and c.budget > 150: continue
            e.add(c)
    chk.assumptions += ['toMatrix33(q1*q2) == toMatrix33(q2)*toMatrix33(q1): the direct query (degree-4 identity modulo two unit constraints) is not decided by z3 in 20 s per entry (diagonal entries are) and is thorough-tier/budgeted; in the quick tier the statement rests on O1 (toMatrix33 is the documented matrix), C05 (operator* is the Hamilton product) and the textbook identity between the two',
                        'Vec3::length() replaced by its contract (C08)', 'unit quaternions are constrained by r^2+|v|^2 == 1 exactly']
    chk.outside += ['exp(log q) = q, slerp angle linear in t, spline tangent continuity, nearly-opposite accuracy (transcendental facts)', 'slerp for t strictly between the endpoints, squad/spline (angle-addition facts)',
                    'setAxisAngle(axis(), angle()) == +-q (atan2): not yet attempted']
