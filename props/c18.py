"""C18 - random generators are deterministic, range-correct and rand48-compatible."""
from vf.engb import EngB

H = 'c18/random.c'


def build(chk):
    e = EngB(chk, 'random', extra=['ImathRandom.cpp'], vopts=dict(nvec=300, bufsizes={'w_srand_lrand2': {1: 16}},
             skip=('w_solid3f_r48', 'w_solid2f_r32', 'w_hollow3f_r48', 'w_hollow2f_r32')))
    e.variant('exact')
    e.variant('ufar', uf=['add', 'mul', 'sub'])
    S48 = 'all 2^48 states'
    mulc = ('cvc5i', 'kissat', 'z3')
    chk.add(e.ob('O1.nrand48', H, 'h_nrand48', 'nrand48: value and successor state == POSIX formula, from every 48-bit state', bounds=S48, backends=mulc, unwind=4, timeout=120))
    chk.add(e.ob('O1.erand48', H, 'h_erand48', 'erand48: successor state == POSIX; result in [0,1); 0 <= d - X*2^-48 < 2^-48', bounds=S48, backends=mulc, unwind=4, timeout=120, core=False))
    chk.add(e.ob('O1.erand48_compositional', H, 'h_erand48_compositional', 'erand48 range/accuracy claim for an arbitrary state (LCG step not used by the oracle)', bounds=S48, backends=('minisat', 'kissat', 'cvc5i'), unwind=4, timeout=120))
    chk.add(e.ob('O1.srand48_lrand48', H, 'h_srand_lrand', 'srand48(seed); lrand48(); lrand48() == POSIX seeding layout 0x330e and sequence, all 2^64 seeds', bounds='all 64-bit seeds', backends=mulc, timeout=120))
    chk.add(e.ob('O1.srand48_drand48', H, 'h_srand_drand', 'srand48(seed); drand48(); lrand48() share one static state, POSIX values', bounds='all 64-bit seeds', backends=mulc, timeout=120, core=False))
    chk.add(e.ob('O2.rand32_draws', H, 'h_r32', 'Rand32 nextb/nexti/nextf: pure functions of the state, documented ranges, nextf in [0,1) for every state', bounds='all 2^64 states', backends=mulc, timeout=120))
    chk.add(e.ob('O2.rand32_init', H, 'h_r32_init', 'Rand32(seed)/init(seed) state is a pure function of the seed', bounds='all seeds, all previous states', backends=mulc, timeout=120))
    chk.add(e.ob('O2.rand48_draws', H, 'h_r48', 'Rand48 nextb/nexti/nextf forward to nrand48/erand48 on the object state', bounds=S48, backends=mulc, unwind=4, timeout=120))
    chk.add(e.ob('O2.rand48_init', H, 'h_r48_init', 'Rand48(seed) state is a pure function of the seed', bounds='all seeds', backends=mulc, timeout=120))
    chk.add(e.ob('O3.rand32_nextf_range', H, 'h_r32_range', 'Rand32::nextf(a,b) stays in [a,b] up to one rounding for finite a<=b, |a|,|b|<=2^60', bounds='all states; a<=b in [-2^60,2^60]',
                 backends=('kissat', 'cadical'), timeout=600, tier='thorough', core=False))
    chk.add(e.ob('O4.solidSphere_V3f_Rand48', H, 'h_solid3', 'solidSphereRand<V3f>(Rand48): on loop exit the point is finite and inside the closed unit ball (one iteration from an arbitrary state)',
                 bounds='arbitrary generator state; rejection loop: partial correctness, 1 iteration (unwind 4 covers the 3-component inner loop), non-exiting paths cut',
                 unwind=4, variant='ufar', defines=('UF_ARITH',), partial_loops=True, timeout=120, backends=('kissat', 'z3', 'minisat'), core=False))
    chk.add(e.ob('O4.solidSphere_V2f_Rand32', H, 'h_solid2', 'solidSphereRand<V2f>(Rand32): on loop exit finite and inside the closed unit disc',
                 bounds='arbitrary generator state; partial correctness as above', unwind=3, variant='ufar', defines=('UF_ARITH',), partial_loops=True, timeout=120, backends=('kissat', 'z3', 'minisat'), core=False))
    chk.assumptions += ['POSIX reference = the formula of the standard (X\' = (0x5DEECE66D X + 0xB) mod 2^48; nrand48 = X\'>>17; srand48 layout seed<<16|0x330e), written in the harness',
                        'determinism / independence of call interleaving: the IR of ImathRandom.cpp touches only the state passed in, or the one static array (checked syntactically, reported under aux)',
                        'sphere samplers: the rejection loops have no static bound; only partial correctness of an iteration from an arbitrary state is decided']
    chk.outside += ['gaussRand / gaussSphereRand finiteness (libm log)', 'hollowSphereRand unit length to rounding (see engine C obligation, real semantics)', 'termination of the rejection loops']
    aux_hidden_state(chk, e)


def aux_hidden_state(chk, e):
    """syntactic side condition: globals written by the translated functions"""
    import re
    txt = open(e.u.ir()).read()
    gl = sorted(set(re.findall(r'store [^,]+, [^@\n]*(@[\w.]+)', txt)))
    chk.aux['globals_stored_to'] = gl
