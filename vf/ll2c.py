#!/usr/bin/env python3
"""LLVM-14 textual IR (typed pointers) -> C translator used by engine B.

The C it emits is checked by CBMC and, for translator validation, compiled with gcc and
run against the natively compiled real code.  Anything it cannot translate faithfully
raises Unsupported (the obligation is then reported as not encodable) - it never
approximates.
usage: ll2c.py in.ll out.c [--only f1,f2] [--uf add,mul,sqrt,...] [--uf-func mangled,...] [--ubcheck]
"""
import re, sys, struct

class Unsupported(Exception):
    pass

# ---------------------------------------------------------------- tokenizer
TOK = re.compile(r'''
    \s+ |
    (?P<str>c"(?:[^"\\]|\\[0-9A-Fa-f]{2}|\\\\)*") |
    (?P<qid>[%@]"(?:[^"\\]|\\.)*") |
    (?P<qstr>"(?:[^"\\]|\\.)*") |
    (?P<id>[%@][-a-zA-Z$._0-9]+) |
    (?P<comdat>\$[-a-zA-Z$._0-9]+|\$"(?:[^"\\]|\\.)*") |
    (?P<meta>![-a-zA-Z$._0-9]*) |
    (?P<attr>\#[0-9]+) |
    (?P<num>-?[0-9]+\.[0-9]*(?:[eE][-+]?[0-9]+)?|0x[KLMHR]?[0-9A-Fa-f]+|-?[0-9]+) |
    (?P<word>[a-zA-Z_][a-zA-Z_0-9.]*) |
    (?P<dots>\.\.\.) |
    (?P<p>[\[\]{}()<>*,=:|])
''', re.X)

def tokenize(s):
    out = []
    pos = 0
    while pos < len(s):
        m = TOK.match(s, pos)
        if not m:
            raise Unsupported('tokenize: ' + s[pos:pos + 40])
        pos = m.end()
        if m.lastgroup:
            out.append((m.lastgroup, m.group(m.lastgroup)))
    return out

# ---------------------------------------------------------------- types
class Ty:
    pass
class IntTy(Ty):
    def __init__(s, n): s.n = n
    def __repr__(s): return 'i%d' % s.n
class FloatTy(Ty):
    def __init__(s, k): s.k = k
    def __repr__(s): return s.k
class VoidTy(Ty):
    def __repr__(s): return 'void'
class PtrTy(Ty):
    def __init__(s, to): s.to = to
    def __repr__(s): return '%r*' % (s.to,)
class ArrTy(Ty):
    def __init__(s, n, el): s.n = n; s.el = el
    def __repr__(s): return '[%d x %r]' % (s.n, s.el)
class StructTy(Ty):
    def __init__(s, fields, packed=False): s.fields = fields; s.packed = packed
    def __repr__(s): return '{%s}' % ','.join(map(repr, s.fields))
class NamedTy(Ty):
    def __init__(s, name): s.name = name
    def __repr__(s): return s.name
class FnTy(Ty):
    def __init__(s, ret, params, va): s.ret = ret; s.params = params; s.va = va
    def __repr__(s): return '%r(%s)' % (s.ret, ','.join(map(repr, s.params)))
class OpaqueTy(Ty):
    def __repr__(s): return 'opaque'

PARAM_ATTRS = {'noundef', 'nonnull', 'readonly', 'writeonly', 'nocapture', 'noalias', 'signext', 'zeroext',
               'returned', 'immarg', 'readnone', 'nofree', 'inreg', 'nest', 'swiftself', 'noinline'}
PARAM_ATTRS_ARG = {'align', 'dereferenceable', 'dereferenceable_or_null'}
PARAM_ATTRS_TY = {'sret', 'byval', 'byref', 'inalloca', 'preallocated', 'elementtype'}

class P:
    """token stream parser"""
    def __init__(s, toks): s.t = toks; s.i = 0
    def peek(s, k=0):
        return s.t[s.i + k] if s.i + k < len(s.t) else (None, None)
    def next(s):
        x = s.t[s.i]; s.i += 1; return x
    def accept(s, v):
        if s.peek()[1] == v:
            s.i += 1; return True
        return False
    def expect(s, v):
        x = s.next()
        if x[1] != v:
            raise Unsupported('expected %r got %r at %r' % (v, x, s.t[max(0, s.i - 6):s.i + 4]))
    def eof(s): return s.i >= len(s.t)

    def type(s):
        k, v = s.next()
        if k == 'word':
            if re.fullmatch(r'i[0-9]+', v): t = IntTy(int(v[1:]))
            elif v in ('float', 'double', 'half', 'x86_fp80', 'fp128'): t = FloatTy(v)
            elif v == 'void': t = VoidTy()
            elif v == 'opaque': t = OpaqueTy()
            elif v == 'ptr': raise Unsupported('opaque pointers')
            elif v in ('label', 'metadata', 'token'): t = NamedTy(v)
            else: raise Unsupported('type word ' + v)
        elif k in ('id', 'qid'):
            t = NamedTy(v)
        elif v == '[':
            n = int(s.next()[1]); s.expect('x'); el = s.type(); s.expect(']'); t = ArrTy(n, el)
        elif v == '{':
            fs = []
            if not s.accept('}'):
                while True:
                    fs.append(s.type())
                    if s.accept('}'): break
                    s.expect(',')
            t = StructTy(fs)
        elif v == '<':
            if s.peek()[1] == '{':
                s.next(); fs = []
                if not s.accept('}'):
                    while True:
                        fs.append(s.type())
                        if s.accept('}'): break
                        s.expect(',')
                s.expect('>'); t = StructTy(fs, True)
            else:
                raise Unsupported('vector type')
        else:
            raise Unsupported('type tok %r' % (v,))
        # suffixes
        while True:
            if s.accept('*'):
                t = PtrTy(t)
            elif s.peek()[1] == '(':
                s.next(); ps = []; va = False
                if not s.accept(')'):
                    while True:
                        if s.peek()[0] == 'dots':
                            s.next(); va = True
                        else:
                            ps.append(s.type())
                        if s.accept(')'): break
                        s.expect(',')
                t = FnTy(t, ps, va)
            elif s.peek()[1] == 'addrspace':
                raise Unsupported('addrspace')
            else:
                break
        return t

    def skip_param_attrs(s):
        s.last_attrs = set()
        while True:
            k, v = s.peek()
            if k == 'word' and v in PARAM_ATTRS:
                s.last_attrs.add(v)
                s.next()
            elif k == 'word' and v in PARAM_ATTRS_ARG:
                s.next()
                if s.accept('('):
                    s.next(); s.expect(')')
                else:
                    s.next()
            elif k == 'word' and v in PARAM_ATTRS_TY:
                s.next(); s.expect('('); s.type(); s.expect(')')
            else:
                break

# ---------------------------------------------------------------- module
class Module:
    def __init__(s):
        s.types = {}      # name -> Ty
        s.globals = {}    # name -> (ty, init-tokens or None, is_const, external)
        s.funcs = {}      # name -> Func
        s.decls = {}      # name -> (ret, [param types], va)
        s.order = []
        s.unsupported = {}   # functions whose signature uses something we refuse (vector types, ...)

class Func:
    pass

def parse_module(text):
    m = Module()
    lines = text.split('\n')
    i = 0
    while i < len(lines):
        ln = lines[i]
        if ln.startswith(';') or not ln.strip() or ln.startswith('source_filename') or ln.startswith('target ') \
                or ln.startswith('attributes ') or ln.startswith('!') or ln.startswith('$'):
            i += 1; continue
        if ln[0] == '%':
            toks = tokenize(ln); p = P(toks)
            name = p.next()[1]; p.expect('='); p.expect('type')
            m.types[name] = p.type()
            i += 1; continue
        if ln[0] == '@':
            try:
                toks = tokenize(ln)
            except Unsupported:
                i += 1; continue
            p = P(toks)
            name = p.next()[1]; p.expect('=')
            external = False; const = False
            while True:
                k, v = p.peek()
                if v in ('private', 'internal', 'external', 'linkonce_odr', 'weak_odr', 'dso_local', 'unnamed_addr',
                         'local_unnamed_addr', 'hidden', 'appending', 'common', 'weak', 'linkonce', 'available_externally',
                         'thread_local', 'dso_preemptable', 'protected'):
                    if v == 'external': external = True
                    p.next()
                elif v == 'global': p.next(); break
                elif v == 'constant': p.next(); const = True; break
                elif v == 'alias':
                    p = None; break
                else:
                    p = None; break
            if p is None:
                i += 1; continue
            ty = p.type()
            init = None
            if not external and not p.eof() and p.peek()[1] != ',':
                init = p  # parser positioned at initializer
            m.globals[name] = (ty, init, const, external)
            m.order.append(name)
            i += 1; continue
        if ln.startswith('declare'):
            try:
                toks = tokenize(ln); p = P(toks); p.next()
                ret, name, params, va, _ = parse_fn_header(p)
                m.decls[name] = (ret, [t for t, _ in params], va)
            except Unsupported as e:
                mm = re.search(r'(@[\w.$]+|@"[^"]+")\(', ln)
                if mm: m.unsupported[mm.group(1)] = str(e)      # any use of it is refused later
            i += 1; continue
        if ln.startswith('define'):
            j = i
            while lines[j] != '}':
                j += 1
            try:
                f = parse_function(lines[i:j])
                m.funcs[f.name] = f
            except Unsupported as e:
                mm = re.search(r'(@[\w.$]+|@"[^"]+")\(', ln)
                if mm: m.unsupported[mm.group(1)] = str(e)
            i = j + 1; continue
        raise Unsupported('toplevel: ' + ln[:60])
    return m

FN_KW = {'dso_local', 'internal', 'linkonce_odr', 'weak_odr', 'hidden', 'private', 'noundef', 'nonnull', 'zeroext',
         'signext', 'noalias', 'available_externally', 'weak', 'linkonce', 'dso_preemptable', 'protected', 'fastcc',
         'ccc', 'external'}

PARAM_SIGNEXT = {}


def parse_fn_header(p):
    while p.peek()[1] in FN_KW or p.peek()[1] in PARAM_ATTRS_ARG:
        if p.peek()[1] in PARAM_ATTRS_ARG:
            p.next()
            if p.accept('('): p.next(); p.expect(')')
            else: p.next()
        else:
            p.next()
    ret = p.type_noFn() if hasattr(p, 'type_noFn') else parse_type_nofn(p)
    name = p.next()[1]
    p.expect('(')
    params = []; va = False
    if not p.accept(')'):
        while True:
            if p.peek()[0] == 'dots':
                p.next(); va = True
            else:
                t = p.type(); p.skip_param_attrs()
                pn = None
                if p.peek()[0] in ('id', 'qid'):
                    pn = p.next()[1]
                params.append((t, pn))
                PARAM_SIGNEXT.setdefault(id(params), []).append('signext' in p.last_attrs)
            if p.accept(')'): break
            p.expect(',')
    return ret, name, params, va, p

def parse_type_nofn(p):
    # return type followed directly by @name( ... ; must not consume '(' as fn type
    # parse base then '*' suffixes only, unless followed by '(' ... ')' '*'
    save = p.i
    k, v = p.peek()
    t = None
    # find the @name token to delimit
    j = p.i
    depth = 0
    while True:
        kk, vv = p.t[j]
        if kk in ('id', 'qid') and vv[0] == '@' and depth == 0:
            break
        if vv in '([{<': depth += 1
        if vv in ')]}>': depth -= 1
        j += 1
    sub = P(p.t[p.i:j])
    t = sub.type()
    if not sub.eof():
        raise Unsupported('ret type parse')
    p.i = j
    return t

class Inst:
    def __init__(s, res, op, toks, raw):
        s.res = res; s.op = op; s.toks = toks; s.raw = raw

def parse_function(lines):
    f = Func()
    hdr = lines[0]
    toks = tokenize(hdr[:hdr.rindex('{')])
    p = P(toks); p.next()
    f.ret, f.name, f.params, f.va, _ = parse_fn_header(p)
    f.signext = PARAM_SIGNEXT.pop(id(f.params), [False] * len(f.params))
    # number unnamed params
    cnt = 0
    ps = []
    for t, n in f.params:
        if n is None:
            n = '%%%d' % cnt
        if re.fullmatch(r'%[0-9]+', n): cnt = int(n[1:]) + 1
        ps.append((t, n))
    f.params = ps
    f.blocks = []   # (label, [Inst])
    cur = None
    first_label = '%%%d' % cnt
    body = lines[1:]
    k = 0
    while k < len(body):
        ln = body[k]; k += 1
        if not ln.strip() or ln.lstrip().startswith(';'):
            continue
        mm = re.match(r'^([-a-zA-Z$._0-9]+|"[^"]*"):', ln)
        if mm:
            cur = ('%' + mm.group(1), [])
            f.blocks.append(cur); continue
        if cur is None:
            cur = (first_label, []); f.blocks.append(cur)
        # join continuation lines (invoke ... to label / landingpad clauses / switch [ ... ])
        s = ln.strip()
        while k < len(body) and (body[k].startswith('          ') or (s.startswith('switch') and ']' not in s.split('[', 1)[-1] if '[' in s else False)):
            s += ' ' + body[k].strip(); k += 1
        if s.startswith('switch') and '[' in s and not s.rstrip().endswith(']'):
            while not s.rstrip().endswith(']'):
                s += ' ' + body[k].strip(); k += 1
        toks = tokenize(s)
        # strip trailing metadata  ", !tbaa !5"
        cut = len(toks)
        for q in range(len(toks)):
            if toks[q][0] == 'meta' and q > 0 and toks[q - 1][1] == ',':
                cut = q - 1; break
        toks = toks[:cut]
        res = None
        if len(toks) > 1 and toks[1][1] == '=' and toks[0][0] in ('id', 'qid'):
            res = toks[0][1]; toks = toks[2:]
        cur[1].append(Inst(res, toks[0][1], toks[1:], s))
    return f

# ---------------------------------------------------------------- C emission
def cname(n):
    n = n[1:]
    if n.startswith('"'): n = n[1:-1]
    return re.sub(r'[^a-zA-Z0-9_]', '_', n)

class Emitter:
    def __init__(s, m, opts):
        s.m = m; s.opts = opts
        s.typedefs = []       # emitted struct defs in order
        s.tynames = {}        # key -> cname
        s.arr_done = set()
        s.anon = 0
        s.exc_ids = {}
        s.used_decls = set()
        s.used_globals = set()
        s.pending_structs = {}
        s.fwd = []
        s.native_uf = set()
        s.stub_defs = {}
        s.need_cuf = False

    # ---- types
    def cty(s, t):
        if isinstance(t, IntTy):
            if t.n == 1: return 'uint8_t'
            if t.n <= 8: return 'uint8_t'
            if t.n <= 16: return 'uint16_t'
            if t.n <= 32: return 'uint32_t'
            if t.n <= 64: return 'uint64_t'
            if t.n <= 128: return 'unsigned __int128'
            raise Unsupported('int width %d' % t.n)
        if isinstance(t, FloatTy):
            if t.k in ('float', 'double'): return t.k
            raise Unsupported('fp type ' + t.k)
        if isinstance(t, VoidTy): return 'void'
        if isinstance(t, PtrTy):
            if isinstance(t.to, FnTy):
                return 'void*'   # function pointers are opaque to us
            if isinstance(t.to, (OpaqueTy,)): return 'void*'
            if isinstance(t.to, NamedTy) and isinstance(s.m.types.get(t.to.name), OpaqueTy): return 'void*'
            if isinstance(t.to, IntTy) and t.to.n == 8: return 'uint8_t*'
            if isinstance(t.to, NamedTy):
                cn = 'T_' + cname(t.to.name)
                s.fwd.append('struct %s;' % cn)
                if t.to.name not in s.tynames: s.pending_structs[t.to.name] = 1
                return 'struct %s*' % cn
            return s.cty(t.to) + '*'
        if isinstance(t, NamedTy):
            return s.named(t.name)
        if isinstance(t, ArrTy):
            key = 'arr%d_%s' % (t.n, re.sub(r'[^a-zA-Z0-9_]', '_', s.cty(t.el).replace('*', 'P')))
            if key not in s.arr_done:
                s.arr_done.add(key)
                s.typedefs.append('struct %s { %s a[%d]; };' % (key, s.cty(t.el), max(t.n, 1)))
            return 'struct ' + key
        if isinstance(t, StructTy):
            key = 'anon_' + re.sub(r'[^a-zA-Z0-9_]', '_', repr(t))[:80] + '_%d' % (hash(repr(t)) & 0xffff)
            if key not in s.tynames:
                s.tynames[key] = key
                fs = ' '.join('%s f%d;' % (s.cty(ft), i) for i, ft in enumerate(t.fields))
                s.typedefs.append('struct %s { %s };' % (key, fs or 'char _e;'))
            return 'struct ' + key
        if isinstance(t, FnTy): return 'void'
        raise Unsupported('cty %r' % (t,))

    def named(s, name):
        cn = 'T_' + cname(name)
        if name not in s.tynames:
            s.tynames[name] = cn
            t = s.m.types.get(name)
            if t is None or isinstance(t, OpaqueTy):
                s.fwd.append('struct %s;' % cn)
                return 'struct ' + cn
            s.fwd.append('struct %s;' % cn)
            fs = ' '.join('%s f%d;' % (s.cty(ft), i) for i, ft in enumerate(t.fields))
            s.typedefs.append('struct %s { %s }%s;' % (cn, fs or 'char _e;', ' __attribute__((packed))' if t.packed else ''))
        return 'struct ' + cn

    def resolve(s, t):
        while isinstance(t, NamedTy):
            t = s.m.types[t.name]
        return t

    # ---- values
    def fconst(s, v, ty):
        if v.startswith('0x'):
            if v[2] in 'KLMHR': raise Unsupported('fp const ' + v)
            bits = int(v, 16)
            d = struct.unpack('<d', struct.pack('<Q', bits))[0]
        else:
            d = float(v)
        if d != d:
            return '__builtin_nanf("")' if ty.k == 'float' else '__builtin_nan("")'
        if d in (float('inf'), float('-inf')):
            r = '__builtin_inff()' if ty.k == 'float' else '__builtin_inf()'
            return r if d > 0 else '(-' + r + ')'
        h = d.hex()
        return '(%s)' % (h + ('f' if ty.k == 'float' else ''))

    def value(s, p, ty, env):
        """parse a value of given type from parser p -> C expr"""
        k, v = p.peek()
        rt = s.resolve(ty) if isinstance(ty, NamedTy) else ty
        if k == 'id' or k == 'qid':
            p.next()
            if v[0] == '%':
                return env.local(v)
            return s.globalref(v)
        if k == 'num':
            p.next()
            if isinstance(rt, FloatTy): return s.fconst(v, rt)
            if isinstance(rt, IntTy):
                n = int(v)
                if n < 0: n += 1 << rt.n
                return '((%s)%dULL)' % (s.cty(rt), n) if rt.n <= 64 else str(n)
            raise Unsupported('num for type %r' % (ty,))
        if k == 'word':
            if v in ('true', 'false'):
                p.next(); return '1' if v == 'true' else '0'
            if v == 'null':
                p.next(); return '((%s)0)' % s.cty(ty)
            if v in ('undef', 'poison', 'zeroinitializer'):
                p.next()
                if isinstance(rt, (IntTy,)): return '((%s)0)' % s.cty(rt)
                if isinstance(rt, FloatTy): return '0.0f' if rt.k == 'float' else '0.0'
                if isinstance(rt, PtrTy): return '((%s)0)' % s.cty(rt)
                return '((%s){0})' % s.cty(ty)
            if v in ('getelementptr', 'bitcast', 'inttoptr', 'ptrtoint', 'trunc', 'zext', 'sext', 'add', 'sub', 'mul'):
                return s.constexpr(p, env)
        if v == '{' or v == '[' or k == 'str' or v == '<':
            return s.aggconst(p, ty, env)
        raise Unsupported('value %r %r' % (k, v))

    def aggconst(s, p, ty, env):
        rt = s.resolve(ty)
        k, v = p.next()
        if k == 'str':
            raw = v[2:-1]
            bs = []
            i = 0
            while i < len(raw):
                if raw[i] == '\\':
                    bs.append(int(raw[i + 1:i + 3], 16)); i += 3
                else:
                    bs.append(ord(raw[i])); i += 1
            return '{{%s}}' % ','.join(map(str, bs))
        if v == '[':
            els = []
            if not p.accept(']'):
                while True:
                    et = p.type(); els.append(s.value(p, et, env))
                    if p.accept(']'): break
                    p.expect(',')
            return '{{%s}}' % ','.join(els)
        if v == '{' or v == '<':
            if v == '<': p.expect('{')
            els = []
            if not p.accept('}'):
                while True:
                    et = p.type(); els.append(s.value(p, et, env))
                    if p.accept('}'): break
                    p.expect(',')
            if v == '<': p.expect('>')
            return '{%s}' % ','.join(els)
        raise Unsupported('aggconst')

    def constexpr(s, p, env):
        k, v = p.next()
        if v == 'getelementptr':
            p.accept('inbounds')
            p.expect('(')
            base_ty = p.type(); p.expect(',')
            pty = p.type(); pv = s.value(p, pty, env)
            idx = []
            while p.accept(','):
                p.accept('inrange')
                it = p.type(); idx.append((it, s.value(p, it, env)))
            p.expect(')')
            return s.gep(base_ty, pv, idx)[0]
        if v in ('bitcast', 'inttoptr', 'ptrtoint', 'trunc', 'zext'):
            p.expect('(')
            ft = p.type(); fv = s.value(p, ft, env); p.expect('to'); tt = p.type(); p.expect(')')
            if isinstance(ft, PtrTy) and isinstance(ft.to, FnTy):
                if s.opts.get('indirect') and fv.startswith('((void*)&'): return '((%s)%s)' % (s.cty(tt), fv)
                return '((%s)0)' % s.cty(tt)   # function pointer constant: opaque
            if v == 'ptrtoint': return '((%s)(uintptr_t)%s)' % (s.cty(tt), fv)
            if v == 'inttoptr': return '((%s)(uintptr_t)%s)' % (s.cty(tt), fv)
            return '((%s)%s)' % (s.cty(tt), fv)
        raise Unsupported('constexpr ' + v)

    def globalref(s, name):
        if name in s.m.globals:
            s.used_globals.add(name)
            return '(&G_%s)' % cname(name)
        if name in s.m.funcs and s.opts.get('indirect'):
            # opt-in: function addresses are kept (vtables, function pointers) so that indirect calls can be resolved by CBMC
            s.fnrefs = getattr(s, 'fnrefs', set()); s.fnrefs.add(name)
            return '((void*)&%s)' % cname(name)
        if name in s.m.funcs or name in s.m.decls:
            return '((void*)0)'
        raise Unsupported('unknown global ' + name)

    def gep(s, base_ty, pv, idx):
        """returns (C expr of resulting pointer, resulting pointee type)"""
        it0, i0 = idx[0]
        e = '%s[%s]' % (pv, s.sx(i0, it0))
        t = base_ty
        for (it, iv) in idx[1:]:
            rt = s.resolve(t)
            if isinstance(rt, StructTy):
                mm = re.fullmatch(r'\(\(uint32_t\)(\d+)ULL\)', iv)
                if not mm: raise Unsupported('non-const struct index')
                n = int(mm.group(1))
                e = '%s.f%d' % (e, n); t = rt.fields[n]
            elif isinstance(rt, ArrTy):
                e = '%s.a[%s]' % (e, s.sx(iv, it)); t = rt.el
            else:
                raise Unsupported('gep into %r' % (rt,))
        return '(&%s)' % e, t

    def sx(s, expr, ty):
        """sign-extended C integer expression (as int64_t) of an iN value"""
        n = ty.n
        mm = re.fullmatch(r'\(\(uint\d+_t\)(\d+)ULL\)', expr)
        if mm:
            v = int(mm.group(1))
            if v >= 1 << (n - 1): v -= 1 << n
            return str(v)
        return '((int64_t)(int%d_t)%s)' % ({1: 8}.get(n, n), expr) if n in (8, 16, 32, 64) else s.sxn(expr, n)

    def sxn(s, expr, n):
        w = 8 if n <= 8 else 16 if n <= 16 else 32 if n <= 32 else 64
        return '((int64_t)((int%d_t)(%s << %d) >> %d))' % (w, expr, w - n, w - n)

    def mask(s, expr, ty):
        n = ty.n
        if n in (8, 16, 32, 64): return '((%s)(%s))' % (s.cty(ty), expr)
        return '((%s)((%s) & %dULL))' % (s.cty(ty), expr, (1 << n) - 1)

class Env:
    def __init__(s):
        s.types = {}  # local -> Ty
    def local(s, n):
        return 'v_' + cname(n)

# fixed ids so that harnesses and the native wrappers (try/catch in wrappers/verif_wrap.h) agree
EXC_IDS = {'_ZTISt12domain_error': 1, '_ZTISt16invalid_argument': 2, '_ZTISt11logic_error': 3,
           '_ZTISt13runtime_error': 4, '_ZTISt12out_of_range': 5, '_ZTISt12length_error': 6,
           '_ZTISt14overflow_error': 7, '_ZTISt9exception': 8}

FCMP = {
    'oeq': '({a}=={b})', 'ogt': '({a}>{b})', 'oge': '({a}>={b})', 'olt': '({a}<{b})', 'ole': '({a}<={b})',
    'one': '(({a}<{b})||({a}>{b}))', 'ord': '(({a}=={a})&&({b}=={b}))',
    'ueq': '(!(({a}<{b})||({a}>{b})))', 'ugt': '(!({a}<={b}))', 'uge': '(!({a}<{b}))', 'ult': '(!({a}>={b}))',
    'ule': '(!({a}>{b}))', 'une': '({a}!={b})', 'uno': '(({a}!={a})||({b}!={b}))', 'true': '1', 'false': '0'}
ICMPU = {'eq': '==', 'ne': '!=', 'ugt': '>', 'uge': '>=', 'ult': '<', 'ule': '<='}
ICMPS = {'sgt': '>', 'sge': '>=', 'slt': '<', 'sle': '<='}
FLAGS = {'nsw', 'nuw', 'exact', 'inbounds', 'nnan', 'ninf', 'nsz', 'arcp', 'contract', 'afn', 'reassoc', 'fast', 'volatile', 'tail', 'notail', 'musttail'}
FASTMATH = {'nnan', 'ninf', 'nsz', 'arcp', 'contract', 'afn', 'reassoc', 'fast'}

INTRIN_FP = {'fabs': 'fabs', 'sqrt': 'sqrt', 'floor': 'floor', 'ceil': 'ceil', 'trunc': 'trunc', 'rint': 'rint',
             'nearbyint': 'nearbyint', 'round': 'round', 'copysign': 'copysign', 'sin': 'sin', 'cos': 'cos',
             'exp': 'exp', 'log': 'log', 'pow': 'pow', 'minnum': 'fmin', 'maxnum': 'fmax', 'log10': 'log10', 'exp2': 'exp2', 'log2': 'log2'}
LIBM = {'sin', 'cos', 'tan', 'asin', 'acos', 'atan', 'atan2', 'exp', 'log', 'log10', 'pow', 'sqrt', 'fabs', 'floor',
        'ceil', 'fmod', 'hypot', 'sinh', 'cosh', 'tanh', 'nextafter', 'trunc', 'round', 'modf', 'ldexp', 'frexp', 'cbrt',
        'copysign', 'fmin', 'fmax'}

def translate_function(E, f):
    m = E.m
    env = Env()
    out = []
    for t, n in f.params:
        env.types[n] = t
    # first pass: result types
    decls = []
    body = []
    labels = [b[0] for b in f.blocks]
    phis = {}   # block -> [(res, ty, [(valtoks.., pred)])]

    def L(lbl): return 'L_' + cname(lbl)

    def setres(ins, ty, expr):
        env.types[ins.res] = ty
        decls.append((ins.res, ty))
        return '%s = %s;' % (env.local(ins.res), expr)

    def retzero():
        if isinstance(f.ret, VoidTy): return 'return;'
        rt = E.resolve(f.ret)
        if isinstance(rt, (IntTy, FloatTy, PtrTy)): return 'return (%s)0;' % E.cty(f.ret)
        return '{ %s z; memset(&z,0,sizeof z); return z; }' % E.cty(f.ret)

    # collect phis first (need to emit assignments on edges)
    for lbl, insts in f.blocks:
        for ins in insts:
            if ins.op == 'phi':
                p = P(ins.toks)
                while p.peek()[1] in FASTMATH: p.next()
                ty = p.type()
                inc = []
                while True:
                    p.expect('[')
                    # value tokens until ','
                    start = p.i
                    depth = 0
                    while not (p.peek()[1] == ',' and depth == 0):
                        if p.peek()[1] in '([{': depth += 1
                        if p.peek()[1] in ')]}': depth -= 1
                        p.next()
                    vt = p.t[start:p.i]
                    p.expect(',')
                    pred = p.next()[1]
                    p.expect(']')
                    inc.append((vt, pred))
                    if not p.accept(','): break
                phis.setdefault(lbl, []).append((ins.res, ty, inc))
                env.types[ins.res] = ty
                decls.append((ins.res, ty))

    def edge(frm, to):
        """C statements for phi assignments on edge frm->to, then goto"""
        ps = phis.get(to, [])
        if not ps:
            return 'goto %s;' % L(to)
        st = []
        # parallel copy via temporaries
        for i, (res, ty, inc) in enumerate(ps):
            vt = [v for v, pr in inc if pr == frm]
            if not vt: raise Unsupported('phi missing pred %s in %s' % (frm, to))
            val = E.value(P(vt[0]), ty, env)
            st.append('%s t%d_ = %s;' % (E.cty(ty), i, val))
        for i, (res, ty, inc) in enumerate(ps):
            st.append('%s = t%d_;' % (env.local(res), i))
        return '{ ' + ' '.join(st) + ' goto %s; }' % L(to)

    def typed_value(p):
        ty = p.type(); p.skip_param_attrs()
        return ty, E.value(p, ty, env)

    for lbl, insts in f.blocks:
        body.append('%s: ;' % L(lbl))
        for ins in insts:
            op = ins.op
            p = P(ins.toks)
            try:
                if op == 'phi':
                    continue
                while p.peek()[1] in FLAGS:
                    fl = p.next()[1]
                    if fl in FASTMATH: raise Unsupported('fast-math flag ' + fl)
                if op in ('add', 'sub', 'mul', 'and', 'or', 'xor', 'shl', 'lshr', 'ashr', 'udiv', 'urem', 'sdiv', 'srem'):
                    ty = p.type(); a = E.value(p, ty, env); p.expect(','); b = E.value(p, ty, env)
                    ct = E.cty(ty)
                    if op in ('add', 'sub', 'mul', 'and', 'or', 'xor'):
                        sym = {'add': '+', 'sub': '-', 'mul': '*', 'and': '&', 'or': '|', 'xor': '^'}[op]
                        wide = 'uint64_t' if ty.n <= 64 else 'unsigned __int128'
                        e = E.mask('(%s)%s %s (%s)%s' % (wide, a, sym, wide, b), ty)
                        flags = [t[1] for t in ins.toks[:3]]
                        if E.opts.get('ubcheck') and 'nsw' in flags and op in ('add', 'sub', 'mul') and ty.n in (32, 64):
                            bi = {'add': '__builtin_add_overflow', 'sub': '__builtin_sub_overflow', 'mul': '__builtin_mul_overflow'}[op]
                            body.append('{ int%d_t o_; __CPROVER_assert(!%s((int%d_t)%s,(int%d_t)%s,&o_), "UB: signed overflow (nsw %s) in %s"); }' % (ty.n, bi, ty.n, a, ty.n, b, op, cname(f.name)))
                    elif op == 'shl':
                        e = E.mask('(uint64_t)%s << %s' % (a, b), ty)
                    elif op == 'lshr':
                        e = E.mask('%s >> %s' % (a, b), ty)
                    elif op == 'ashr':
                        e = E.mask('%s >> %s' % (E.sx(a, ty), b), ty)
                    elif op == 'udiv': e = E.mask('%s / %s' % (a, b), ty)
                    elif op == 'urem': e = E.mask('%s %% %s' % (a, b), ty)
                    elif op == 'sdiv': e = E.mask('%s / %s' % (E.sx(a, ty), E.sx(b, ty)), ty)
                    elif op == 'srem': e = E.mask('%s %% %s' % (E.sx(a, ty), E.sx(b, ty)), ty)
                    body.append(setres(ins, ty, e))
                elif op in ('fadd', 'fsub', 'fmul', 'fdiv', 'frem'):
                    ty = p.type(); a = E.value(p, ty, env); p.expect(','); b = E.value(p, ty, env)
                    uf = E.opts.get('uf', set())
                    if op[1:] in uf:
                        # IEEE + and * are commutative (NaN payloads aside): the uninterpreted symbol is applied to the
                        # operands in bit-pattern order, so operand order chosen by the compiler never matters
                        e = ('verif_uf_%s_%s(%s,%s)' if op in ('fadd', 'fmul') else '__CPROVER_uninterpreted_%s_%s(%s,%s)') % (op, ty.k, a, b)
                        E.need_cuf = True
                        E.used_decls.add(('uf', '%s __CPROVER_uninterpreted_%s_%s(%s,%s);' % (ty.k, op, ty.k, ty.k, ty.k)))
                        E.native_uf.add('#define __CPROVER_uninterpreted_%s_%s(a,b) ((a) %s (b))' % (op, ty.k, {'fadd': '+', 'fsub': '-', 'fmul': '*', 'fdiv': '/'}.get(op, '?')))
                    elif op == 'frem':
                        e = ('fmodf(%s,%s)' if ty.k == 'float' else 'fmod(%s,%s)') % (a, b)
                    else:
                        e = '(%s %s %s)' % (a, {'fadd': '+', 'fsub': '-', 'fmul': '*', 'fdiv': '/'}[op], b)
                    body.append(setres(ins, ty, e))
                elif op == 'fneg':
                    ty = p.type(); a = E.value(p, ty, env)
                    body.append(setres(ins, ty, '(-%s)' % a))
                elif op == 'icmp':
                    pred = p.next()[1]; ty = p.type(); a = E.value(p, ty, env); p.expect(','); b = E.value(p, ty, env)
                    rt = E.resolve(ty)
                    if isinstance(rt, PtrTy):
                        a = '((uintptr_t)%s)' % a; b = '((uintptr_t)%s)' % b
                        if pred in ICMPS: raise Unsupported('signed ptr cmp')
                        e = '(%s %s %s)' % (a, ICMPU[pred], b)
                    elif pred in ICMPU: e = '(%s %s %s)' % (a, ICMPU[pred], b)
                    else: e = '(%s %s %s)' % (E.sx(a, rt), ICMPS[pred], E.sx(b, rt))
                    body.append(setres(ins, IntTy(1), e))
                elif op == 'fcmp':
                    pred = p.next()[1]; ty = p.type(); a = E.value(p, ty, env); p.expect(','); b = E.value(p, ty, env)
                    body.append(setres(ins, IntTy(1), FCMP[pred].format(a=a, b=b)))
                elif op == 'select':
                    ct, c = typed_value(p); p.expect(','); ty, a = typed_value(p); p.expect(','); ty2, b = typed_value(p)
                    body.append(setres(ins, ty, '(%s ? %s : %s)' % (c, a, b)))
                elif op in ('zext', 'trunc', 'sext', 'fptrunc', 'fpext', 'fptosi', 'fptoui', 'sitofp', 'uitofp', 'bitcast', 'ptrtoint', 'inttoptr', 'freeze'):
                    if op == 'freeze':
                        ty, a = typed_value(p); body.append(setres(ins, ty, a)); continue
                    ft, a = typed_value(p); p.expect('to'); tt = p.type()
                    rft = E.resolve(ft); rtt = E.resolve(tt)
                    if op == 'zext': e = '((%s)%s)' % (E.cty(tt), a)
                    elif op == 'trunc': e = E.mask(a, rtt)
                    elif op == 'sext': e = E.mask(E.sx(a, rft), rtt)
                    elif op in ('fptrunc', 'fpext'): e = '((%s)%s)' % (E.cty(tt), a)
                    elif op == 'fptosi': e = E.mask('(int64_t)%s' % a if rtt.n > 32 else '(int32_t)%s' % a, rtt)
                    elif op == 'fptoui': e = E.mask('(uint64_t)%s' % a if rtt.n > 32 else '(uint32_t)%s' % a, rtt)
                    elif op == 'sitofp': e = '((%s)%s)' % (E.cty(tt), E.sx(a, rft))
                    elif op == 'uitofp': e = '((%s)%s)' % (E.cty(tt), a)
                    elif op == 'ptrtoint': e = '((%s)(uintptr_t)%s)' % (E.cty(tt), a)
                    elif op == 'inttoptr': e = '((%s)(uintptr_t)%s)' % (E.cty(tt), a)
                    elif op == 'bitcast':
                        if isinstance(rft, PtrTy) and isinstance(rtt, PtrTy):
                            e = '((%s)%s)' % (E.cty(tt), a)
                        else:
                            # scalar reinterpretation
                            body.append('{ %s s_ = %s; %s d_; memcpy(&d_, &s_, sizeof d_); %s = d_; }' % (E.cty(ft), a, E.cty(tt), env.local(ins.res)))
                            env.types[ins.res] = tt; decls.append((ins.res, tt)); continue
                    body.append(setres(ins, tt, e))
                elif op == 'getelementptr':
                    base_ty = p.type(); p.expect(',')
                    pty, pv = typed_value(p)
                    idx = []
                    while p.accept(','):
                        it = p.type(); idx.append((it, E.value(p, it, env)))
                    e, rt = E.gep(base_ty, pv, idx)
                    body.append(setres(ins, PtrTy(rt), e))
                elif op == 'load':
                    p.accept('atomic')
                    ty = p.type(); p.expect(','); pty, pv = typed_value(p)
                    body.append(setres(ins, ty, '(*%s)' % pv))
                elif op == 'store':
                    p.accept('atomic')
                    ty, v = typed_value(p); p.expect(','); pty, pv = typed_value(p)
                    body.append('*%s = %s;' % (pv, v))
                elif op == 'alloca':
                    ty = p.type()
                    n = '1'
                    if p.accept(','):
                        if p.peek()[1] != 'align':
                            nt, n = typed_value(p)
                    if n != '1': raise Unsupported('dynamic alloca')
                    nm = 'A_' + cname(ins.res)
                    decls.append((nm, ('raw', E.cty(ty))))
                    body.append(setres(ins, PtrTy(ty), '&%s' % nm))
                elif op == 'br':
                    if p.peek()[1] == 'label':
                        p.next(); d = p.next()[1]
                        body.append(edge(lbl, d))
                    else:
                        ct, c = typed_value(p); p.expect(','); p.expect('label'); d1 = p.next()[1]; p.expect(','); p.expect('label'); d2 = p.next()[1]
                        body.append('if (%s) %s else %s' % (c, edge(lbl, d1), edge(lbl, d2)))
                elif op == 'switch':
                    ty, v = typed_value(p); p.expect(','); p.expect('label'); dflt = p.next()[1]; p.expect('[')
                    st = []
                    while not p.accept(']'):
                        ct, cv = typed_value(p); p.expect(','); p.expect('label'); d = p.next()[1]
                        st.append('if (%s == %s) %s' % (v, cv, edge(lbl, d)))
                    st.append(edge(lbl, dflt))
                    body.append(' else '.join(st))
                elif op == 'ret':
                    if p.peek()[1] == 'void': body.append('return;')
                    else:
                        ty, v = typed_value(p); body.append('return %s;' % v)
                elif op == 'unreachable':
                    body.append('__CPROVER_assert(0, "reached LLVM unreachable in %s"); __CPROVER_assume(0);' % cname(f.name))
                elif op == 'resume':
                    body.append(retzero())
                elif op == 'landingpad':
                    ty = p.type()
                    env.types[ins.res] = ty; decls.append((ins.res, ty))
                elif op in ('extractvalue',):
                    ty, v = typed_value(p); idxs = []
                    while p.accept(','): idxs.append(int(p.next()[1]))
                    t = ty; e = v
                    for i in idxs:
                        rt = E.resolve(t)
                        if isinstance(rt, StructTy): e += '.f%d' % i; t = rt.fields[i]
                        else: e += '.a[%d]' % i; t = rt.el
                    body.append(setres(ins, t, e))
                elif op == 'insertvalue':
                    ty, v = typed_value(p); p.expect(','); ety, ev = typed_value(p); idxs = []
                    while p.accept(','): idxs.append(int(p.next()[1]))
                    env.types[ins.res] = ty; decls.append((ins.res, ty))
                    t = ty; acc = ''
                    for i in idxs:
                        rt = E.resolve(t)
                        if isinstance(rt, StructTy): acc += '.f%d' % i; t = rt.fields[i]
                        else: acc += '.a[%d]' % i; t = rt.el
                    body.append('%s = %s; %s%s = %s;' % (env.local(ins.res), v, env.local(ins.res), acc, ev))
                elif op in ('call', 'invoke'):
                    while p.peek()[1] in FN_KW or p.peek()[1] in PARAM_ATTRS or p.peek()[1] in PARAM_ATTRS_ARG:
                        if p.peek()[1] in PARAM_ATTRS_ARG:
                            p.next()
                            if p.accept('('): p.next(); p.expect(')')
                            else: p.next()
                        else: p.next()
                    rty = parse_type_nofn_call(p)
                    callee = p.next()[1]
                    p.expect('(')
                    args = []
                    if not p.accept(')'):
                        while True:
                            at = p.type(); p.skip_param_attrs()
                            if isinstance(at, NamedTy) and at.name == 'metadata':
                                # skip metadata arg
                                while p.peek()[1] not in (',', ')'): p.next()
                                args.append((at, '0'))
                            else:
                                args.append((at, E.value(p, at, env)))
                            if p.accept(')'): break
                            p.expect(',')
                    normal = unwind = None
                    if op == 'invoke':
                        while p.peek()[1] != 'to': p.next()
                        p.expect('to'); p.expect('label'); normal = p.next()[1]; p.expect('unwind'); p.expect('label'); unwind = p.next()[1]
                    if callee[0] == '%':
                        # indirect call (virtual dispatch / function pointer): refused at run time, not approximated
                        if E.opts.get('indirect'):
                            # opt-in: a real C call through the pointer (CBMC resolves it against the functions whose address is taken)
                            fpt = '%s (*)(%s)' % (E.cty(rty), ', '.join(E.cty(t) for t, _ in args) or 'void')
                            callx = '((%s)%s)(%s)' % (fpt, env.local(callee), ', '.join(a for _, a in args))
                            if ins.res is not None and not isinstance(rty, VoidTy): stmts = [setres(ins, rty, callx)]
                            else: stmts = [callx + ';']
                            stmts.append('if (__verif_exc) %s' % retzero())
                        else:
                            stmts = ['__CPROVER_assert(0, "indirect call reached in %s: virtual dispatch is not modelled"); __CPROVER_assume(0);' % cname(f.name)]
                            if ins.res is not None and not isinstance(rty, VoidTy):
                                env.types[ins.res] = rty; decls.append((ins.res, rty))
                        E.indirect = getattr(E, 'indirect', 0) + 1
                    else:
                        stmts = emit_call(E, f, env, ins, rty, callee, args, decls, retzero)
                    body.extend(stmts)
                    if op == 'invoke':
                        body.append('if (__verif_exc) %s else %s' % (edge(lbl, unwind), edge(lbl, normal)))
                    elif any('STUB_' in x or '__verif_exc =' in x for x in stmts) or callee in m.funcs:
                        body.append('if (__verif_exc) %s' % retzero())
                elif op in ('fence',):
                    pass
                elif op == 'atomicrmw':
                    p.accept('volatile')
                    aop = p.next()[1]
                    pty, pv = typed_value(p); p.expect(','); ty, v = typed_value(p)
                    sym = {'add': '+', 'sub': '-', 'and': '&', 'or': '|', 'xor': '^'}.get(aop)
                    if aop == 'xchg':
                        body.append(setres(ins, ty, '(*%s)' % pv)); body.append('*%s = %s;' % (pv, v))
                    elif sym:
                        body.append(setres(ins, ty, '(*%s)' % pv)); body.append('*%s = %s;' % (pv, E.mask('%s %s %s' % (env.local(ins.res), sym, v), ty)))
                    else: raise Unsupported('atomicrmw ' + aop)
                else:
                    raise Unsupported('opcode ' + op)
            except Unsupported as e:
                raise Unsupported('%s: in %s: %s' % (e, f.name, ins.raw[:160]))
    # assemble
    ps = ', '.join('%s %s' % (E.cty(t), env.local(n)) for t, n in f.params) or 'void'
    hdr = '%s %s(%s)' % (E.cty(f.ret), cname(f.name), ps)
    lines = [hdr, '{']
    seen = set()
    for n, t in decls:
        if n in seen: continue
        seen.add(n)
        if isinstance(t, tuple):
            lines.append('  %s %s;' % (t[1], n))
        else:
            lines.append('  %s %s;' % (E.cty(t), env.local(n)))
    lines += ['  ' + b for b in body]
    lines.append('}')
    return hdr + ';', '\n'.join(lines)

def parse_type_nofn_call(p):
    # call result type, possibly a full function type "void (i8*, ...)" before callee
    j = p.i; depth = 0
    while True:
        kk, vv = p.t[j]
        if kk in ('id', 'qid') and depth == 0 and (p.t[j + 1][1] == '(' ):
            break
        if vv in '([{<': depth += 1
        if vv in ')]}>': depth -= 1
        j += 1
        if j >= len(p.t) - 1: raise Unsupported('call parse')
    sub = P(p.t[p.i:j]); t = sub.type(); p.i = j
    if isinstance(t, PtrTy) and isinstance(t.to, FnTy): t = t.to.ret
    if isinstance(t, FnTy): t = t.ret
    return t

def emit_call(E, f, env, ins, rty, callee, args, decls, retzero):
    m = E.m
    name = callee[1:]
    def res(expr):
        if ins.res is None or isinstance(rty, VoidTy): return ['%s;' % expr]
        env.types[ins.res] = rty; decls.append((ins.res, rty))
        return ['%s = %s;' % (env.local(ins.res), expr)]
    av = [a for _, a in args]
    if name.startswith('llvm.'):
        parts = name.split('.')
        base = parts[1]
        if base in ('lifetime', 'experimental', 'dbg', 'invariant', 'prefetch', 'donothing'): return []
        if base == 'assume': return []
        if base in INTRIN_FP:
            sfx = 'f' if parts[-1] == 'f32' else ''
            fn = INTRIN_FP[base]
            if fn in E.opts.get('uf', set()):
                ct = 'float' if sfx else 'double'
                sig = ','.join([ct] * len(av))
                E.used_decls.add(('uf', '%s __CPROVER_uninterpreted_%s%s(%s);' % (ct, fn, sfx, sig)))
                E.native_uf.add('#define __CPROVER_uninterpreted_%s%s %s%s' % (fn, sfx, fn, sfx))
                return res('__CPROVER_uninterpreted_%s%s(%s)' % (fn, sfx, ','.join(av)))
            return res('%s%s(%s)' % (fn, sfx, ','.join(av)))
        if base == 'fmuladd': return res('(%s*%s+%s)' % tuple(av))
        if base == 'memset': return ['memset(%s,%s,%s);' % (av[0], av[1], av[2])]
        if base in ('memcpy', 'memmove'): return ['%s(%s,%s,%s);' % (base, av[0], av[1], av[2])]
        if base in ('umin', 'umax'):
            return res('(%s %s %s ? %s : %s)' % (av[0], '<' if base == 'umin' else '>', av[1], av[0], av[1]))
        if base in ('smin', 'smax'):
            t = args[0][0]
            return res('(%s %s %s ? %s : %s)' % (E.sx(av[0], t), '<' if base == 'smin' else '>', E.sx(av[1], t), av[0], av[1]))
        if base == 'abs':
            t = args[0][0]
            return res(E.mask('(%s < 0 ? -%s : %s)' % (E.sx(av[0], t), E.sx(av[0], t), E.sx(av[0], t)), t))
        if base == 'ctlz':
            t = args[0][0]
            if t.n == 32: return res('(%s ? (uint32_t)__builtin_clz(%s) : 32u)' % (av[0], av[0]))
            if t.n == 64: return res('(%s ? (uint64_t)__builtin_clzll(%s) : 64u)' % (av[0], av[0]))
        if base == 'cttz':
            t = args[0][0]
            if t.n == 32: return res('(%s ? (uint32_t)__builtin_ctz(%s) : 32u)' % (av[0], av[0]))
            if t.n == 64: return res('(%s ? (uint64_t)__builtin_ctzll(%s) : 64u)' % (av[0], av[0]))
        if base in ('umul', 'uadd', 'usub', 'smul', 'sadd', 'ssub') and len(parts) > 3 and parts[2] == 'with' and parts[3] == 'overflow':
            t = args[0][0]; bi = '__builtin_%s_overflow' % base[1:]
            ct = E.cty(t); sct = ct if base[0] == 'u' else ct.replace('uint', 'int')
            env.types[ins.res] = rty; decls.append((ins.res, rty))
            return ['{ %s r_; %s.f1 = %s((%s)%s, (%s)%s, &r_); %s.f0 = (%s)r_; }' % (sct, env.local(ins.res), bi, sct, av[0], sct, av[1], env.local(ins.res), ct)]
        if base == 'eh' and parts[2] == 'typeid': return res('0')
        if base == 'trap': return ['__CPROVER_assert(0,"llvm.trap"); __CPROVER_assume(0);']
        if base == 'is' and parts[2] == 'constant': return res('0')
        if base == 'objectsize': return res('(uint64_t)-1')
        raise Unsupported('intrinsic ' + name)
    if callee in m.unsupported:
        raise Unsupported('call to %s whose signature is not supported: %s' % (callee, m.unsupported[callee]))
    if name == '__cxa_allocate_exception':
        return res('(uint8_t*)__verif_exc_buf')
    if name == '__cxa_free_exception': return []
    if name == '__cxa_throw':
        ti = av[1]
        mm = re.search(r'G_(\w+)', ti)
        tname = mm.group(1) if mm else 'unknown'
        E.exc_ids.setdefault(tname, EXC_IDS.get(tname, 90 + len(E.exc_ids)))
        return ['__verif_exc = %d; /* throw %s */' % (E.exc_ids[tname], tname)]
    if re.match(r'^_ZNSt\d+\w*(error|argument|exception|range|failure)[CD][0-2]E', name):
        E.used_decls.add(('note', '/* libstdc++ exception object constructor/destructor %s: no effect on the modelled state */' % name))
        return []
    if name in E.opts.get('uffunc', set()):
        ct = E.cty(rty); sig = ','.join(E.cty(t) for t, _ in args)
        E.used_decls.add(('uf', '%s __CPROVER_uninterpreted_%s(%s);' % (ct, cname(callee), sig)))
        E.native_uf.add('#define __CPROVER_uninterpreted_%s %s' % (cname(callee), cname(callee)))
        if callee in m.funcs: E.need.add(callee)
        return res('__CPROVER_uninterpreted_%s(%s)' % (cname(callee), ','.join(av)))
    if callee in m.funcs:
        E.need.add(callee)
        return res('%s(%s)' % (cname(callee), ','.join(av)))
    # libm
    base = name[:-1] if name.endswith('f') and name[:-1] in LIBM else name
    if base in LIBM:
        uf = E.opts.get('uf', set())
        if base in uf or base not in ('sqrt', 'fabs', 'floor', 'ceil', 'trunc', 'fmod', 'copysign', 'fmin', 'fmax', 'round'):
            ct = E.cty(rty); sig = ','.join(E.cty(t) for t, _ in args)
            E.used_decls.add(('uf', '%s __CPROVER_uninterpreted_%s(%s);' % (ct, name, sig)))
            E.native_uf.add('#define __CPROVER_uninterpreted_%s %s' % (name, name))
            return res('__CPROVER_uninterpreted_%s(%s)' % (name, ','.join(av)))
        return res('%s(%s)' % (name, ','.join(av)))
    # external: declared stub
    sig = '%s STUB_%s(%s);' % (E.cty(rty), cname(callee), ','.join(E.cty(t) for t, _ in args) or 'void')
    E.used_decls.add(('stub', sig))
    E.stub_defs[cname(callee)] = (E.cty(rty), [E.cty(t) for t, _ in args])
    return res('STUB_%s(%s)' % (cname(callee), ','.join(av)))

def translate(text, only=None, opts=None, module=None):
    """returns (header_text, body_text, info).  header = types, globals' externs, prototypes, exception ids;
    body = global definitions and function bodies."""
    m = module or parse_module(text)
    E = Emitter(m, opts or {})
    E.need = set()
    todo = list(only) if only else [n for n in m.funcs if not n.startswith('@_GLOBAL__') and not n.startswith('@__cxx_global')]
    roots = list(todo)
    done = {}; skipped = {}
    for root in roots:
        tmp = {}; stack = [root]
        try:
            while stack:
                n = stack.pop()
                if n in done or n in tmp: continue
                if n in m.unsupported: raise Unsupported('%s: %s' % (n, m.unsupported[n]))
                if n not in m.funcs: raise Unsupported('no such function ' + n)
                E.need = set()
                tmp[n] = translate_function(E, m.funcs[n])
                stack.extend(E.need - set(done) - set(tmp))
            done.update(tmp)
        except Unsupported as e:
            if (opts or {}).get('strict'): raise
            skipped[root[1:]] = str(e)[:300]     # refused, not approximated: the root is simply not available
    # globals (fixpoint over references between initialisers)
    inits = {}
    changed = True
    while changed:
        changed = False
        for g in m.order:
            if g not in E.used_globals or g in inits: continue
            ty, init, const, external = m.globals[g]
            changed = True
            if external or init is None:
                inits[g] = None
            else:
                try:
                    if isinstance(init, P): init.i0 = getattr(init, 'i0', init.i); init.i = init.i0
                    inits[g] = E.value(init, ty, Env())
                except Unsupported as e:
                    inits[g] = '/*unsupported %s*/' % e
    dummy = []
    if (opts or {}).get('indirect'):
        # functions whose address is taken (vtable slots): translate them too, then revisit globals they use; a target that cannot be
        # translated becomes a body-less trap so that reaching it is reported rather than approximated
        progress = True
        while progress:
            progress = False
            for n in sorted(getattr(E, 'fnrefs', set())):
                if n in done or n in skipped or n[1:] in [d[0] for d in dummy]: continue
                progress = True
                tmp = {}; stack = [n]
                try:
                    while stack:
                        k = stack.pop()
                        if k in done or k in tmp: continue
                        if k in m.unsupported: raise Unsupported('%s: %s' % (k, m.unsupported[k]))
                        if k not in m.funcs: raise Unsupported('no such function ' + k)
                        E.need = set()
                        tmp[k] = translate_function(E, m.funcs[k])
                        stack.extend(E.need - set(done) - set(tmp))
                    done.update(tmp)
                except Unsupported as e:
                    dummy.append((n[1:], str(e)[:200]))
            changed = True
            while changed:
                changed = False
                for g in m.order:
                    if g not in E.used_globals or g in inits: continue
                    ty, init, const, external = m.globals[g]
                    changed = True; progress = True
                    if external or init is None: inits[g] = None
                    else:
                        try:
                            if isinstance(init, P): init.i0 = getattr(init, 'i0', init.i); init.i = init.i0
                            inits[g] = E.value(init, ty, Env())
                        except Unsupported as e:
                            inits[g] = '/*unsupported %s*/' % e
    gdecl = []; gdef = []
    for nm_, why in dummy:
        gdecl.append('void %s(void);   /* address-taken function that could not be translated: %s */' % (cname('@' + nm_), why.replace('*/', '* /')))
        gdef.append('void %s(void) { __CPROVER_assert(0, "reached an untranslated address-taken function"); __CPROVER_assume(0); }' % cname('@' + nm_))
    for g in m.order:
        if g not in inits: continue
        ty, init, const, external = m.globals[g]
        gdecl.append('extern %s%s G_%s;' % ('const ' if const else '', E.cty(ty), cname(g)))
    for g in m.order:
        if g not in inits or inits[g] is None: continue
        ty, init, const, external = m.globals[g]
        iv = inits[g]
        if iv.startswith('/*'):
            gdef.append('%s %s G_%s;' % (iv, E.cty(ty), cname(g)))
        else:
            gdef.append('%s%s G_%s = %s;' % ('const ' if const else '', E.cty(ty), cname(g), iv))
    hdr = ['/* generated by ll2c.py - do not edit */', '#include <stdint.h>', '#include <stddef.h>', '#include <math.h>', '#include <string.h>',
           '#ifndef __CPROVER__', '#include <stdlib.h>', '#include <unistd.h>', '#define __CPROVER_assert(c,m) ((void)0)', '#define __CPROVER_assume(c) ((void)0)', '#endif',
           'extern int __verif_exc; extern uint64_t __verif_exc_buf[32];']
    while [n for n in E.pending_structs if n not in E.tynames]:
        for n in [n for n in list(E.pending_structs) if n not in E.tynames]: E.named(n)
    hdr += sorted(set(E.fwd)) + E.typedefs
    ufs = [d for k, d in sorted(E.used_decls) if k == 'uf']
    stubs = [d for k, d in sorted(E.used_decls) if k == 'stub']
    hdr += [d for k, d in sorted(E.used_decls) if k == 'note']
    hdr += ['#ifdef __CPROVER__'] + ufs + ['#else'] + sorted(E.native_uf) + ['#endif']
    if E.need_cuf:
        hdr += ['#ifndef VERIF_CUF', '#define VERIF_CUF']
        for k, bits in (('float', 'uint32_t'), ('double', 'uint64_t')):
            for op, sym in (('fadd', '+'), ('fmul', '*')):
                hdr += ['#ifdef __CPROVER__', '%s __CPROVER_uninterpreted_%s_%s(%s,%s);' % (k, op, k, k, k),
                        'static inline %s verif_uf_%s_%s(%s a, %s b) { union { %s f; %s u; } x, y; x.f = a; y.f = b; return x.u <= y.u ? __CPROVER_uninterpreted_%s_%s(a, b) : __CPROVER_uninterpreted_%s_%s(b, a); }' % (k, op, k, k, k, k, bits, op, k, op, k),
                        '#else', 'static inline %s verif_uf_%s_%s(%s a, %s b) { return a %s b; }' % (k, op, k, k, k, sym), '#endif']
        hdr += ['#endif']
    hdr += stubs
    hdr += gdecl
    for k, v in sorted(E.exc_ids.items()): hdr += ['#ifndef VERIF_EXC_%s' % k, '#define VERIF_EXC_%s %d' % (k, v), '#endif']
    hdr += [h for h, _ in done.values()]
    body = ['/* generated by ll2c.py - do not edit */']
    body += gdef
    body.append('#ifndef __CPROVER__   /* natively, an undefined external aborts (translator validation never reaches one) */')
    for nm, (rt, ats) in sorted(E.stub_defs.items()):
        body.append('__attribute__((weak)) %s STUB_%s(%s) { write(2, "undefined external STUB_%s reached\\n", %d); abort(); }' % (rt, nm, ', '.join('%s a%d' % (t, i) for i, t in enumerate(ats)) or 'void', nm, len(nm) + 33))
    body.append('#endif')
    body += [b for _, b in done.values()]
    info = {'functions': {n[1:]: sum(len(b[1]) for b in m.funcs[n].blocks) for n in done},
            'roots': [r[1:] for r in roots if r[1:] not in skipped], 'skipped': skipped, 'stubs': [re.search(r'(STUB_\w+)', d).group(1) for d in stubs],
            'uf': [re.search(r'(__CPROVER_uninterpreted_\w+)', d).group(1) for d in ufs],
            'exc_ids': dict(E.exc_ids)}
    return '\n'.join(hdr) + '\n', '\n'.join(body) + '\n', info

if __name__ == '__main__':
    src = open(sys.argv[1]).read()
    only = None; opts = {}
    a = sys.argv[3:]
    while a:
        if a[0] == '--only': only = ['@' + x for x in a[1].split(',')]; a = a[2:]
        elif a[0] == '--uf': opts['uf'] = set(a[1].split(',')); a = a[2:]
        elif a[0] == '--uf-func': opts['uffunc'] = set(a[1].split(',')); a = a[2:]
        elif a[0] == '--ubcheck': opts['ubcheck'] = True; a = a[1:]
        else: raise SystemExit('bad arg ' + a[0])
    h, b, info = translate(src, only, opts)
    open(sys.argv[2], 'w').write(h + b)
