"""Obligation scheduler: runs CBMC and symbolic (engine C) obligations in parallel, checks reachability
witnesses, replays counterexamples against the natively built real code, applies known_findings.json,
writes the evidence file and decides the exit code."""
import os, sys, json, time, threading, traceback, multiprocessing, queue
from concurrent.futures import ThreadPoolExecutor
from .common import *
from . import cbmc as C


class Ob:
    """base obligation"""
    kind = 'base'
    def __init__(s, oid, desc='', tier='quick', core=True, weight=1):
        s.oid = oid; s.desc = desc; s.tier = tier; s.core = core; s.weight = weight
        s.result = None


class CbmcOb(Ob):
    """One CBMC query: harness function `func` of the C files `files` (compiled by goto-cc with `defines`)."""
    kind = 'cbmc'
    def __init__(s, oid, files, func, *, defines=(), incs=(), backends=('minisat',), unwind=None, timeout=60, extra=(),
                 replay_link=(), replay_files=None, replay_defines=(), witness=True, custom_replay=None, bounds='', engine='B', mode='exact', partial_loops=False, **kw):
        Ob.__init__(s, oid, **kw)
        s.files = tuple(files); s.func = func; s.defines = tuple(defines); s.incs = tuple(incs)
        s.backends = tuple(backends); s.unwind = unwind; s.timeout = timeout; s.extra = tuple(extra)
        s.replay_link = tuple(replay_link); s.replay_files = replay_files; s.replay_defines = tuple(replay_defines)
        s.custom_replay = custom_replay; s.witness = witness; s.bounds = bounds; s.engine = engine; s.mode = mode; s.partial_loops = partial_loops
        s.fallback = None   # obligation in a more precise mode, decided when a counterexample of this (abstracted) one does not reproduce natively
        s.fallback_factory = None   # or a function building it on demand


class SymOb(Ob):
    """Engine C obligation: fn(ctx) runs in a forked worker and returns a dict
    {verdict, queries, paths, subresults:[{id,verdict,time}], model?, functions, axioms, bounds}."""
    kind = 'sym'
    def __init__(s, oid, fn, *, timeout=120, replay=None, bounds='', **kw):
        Ob.__init__(s, oid, **kw)
        s.fn = fn; s.timeout = timeout; s.replay = replay; s.bounds = bounds; s.engine = 'C'; s.mode = 'reals'


class Check:
    def __init__(s, prop, tier, wd):
        s.prop = prop; s.tier = tier; s.wd = wd
        s.obs = []; s.aux = {}; s.assumptions = []; s.trusted = []; s.functions = {}; s.stubs = []; s.validation = {'vectors': 0, 'functions': 0, 'mismatches': 0}
        s.not_encodable = []; s.outside = []
        s._gb = {}; s._gb_lock = threading.Lock()
        s.seed = int(os.environ.get('VERIF_SEED', '1') or 1)
        s.t0 = time.time()

    def add(s, ob):
        if ob.tier == 'thorough' and s.tier != 'thorough': return
        s.obs.append(ob)

    # ---- goto binaries, compiled once per (files, defines)
    def gotobin(s, ob, witness):
        key = (ob.files, ob.defines + (('WITNESS',) if witness else ()), ob.incs)
        with s._gb_lock:
            ent = s._gb.get(key)
            if ent is None:
                ent = {'lock': threading.Lock(), 'path': None}; s._gb[key] = ent
        with ent['lock']:
            if ent['path'] is None:
                out = os.path.join(s.wd, 'gb_%d.gb' % (len([e for e in s._gb.values() if e['path']]) + 1 + 1000 * (id(ent) % 997)))
                ent['path'] = C.goto_cc(out, ob.files, key[1], (os.path.join(VERIF, 'harness'),) + ob.incs)
        return ent['path']

    # ---- running
    def run_cbmc_ob(s, ob):
        try:
            gb = s.gotobin(ob, False)
            wres = [None]
            def wit():
                gbw = s.gotobin(ob, True)
                wres[0] = C.cbmc(gbw, ob.func, ob.backends, ob.unwind, ob.timeout, ob.extra, partial_loops=ob.partial_loops)
            th = None
            if ob.witness:
                th = threading.Thread(target=wit); th.start()
            r = C.cbmc(gb, ob.func, ob.backends, ob.unwind, ob.timeout, ob.extra, partial_loops=ob.partial_loops)
            if th: th.join()
            res = {'verdict': r['verdict'], 'backend': r.get('backend'), 'time': r.get('wall'), 'assertions': r.get('assertions', 0), 'failed': r.get('failed', [])[:6]}
            if r['verdict'] == 'holds':
                w = wres[0]
                if ob.witness:
                    if w['verdict'] == 'violated' and any('WITNESS' in f for f in w['failed']):
                        res['witness'] = 'reachable'
                    elif w['verdict'] == 'holds':
                        res['verdict'] = 'error'; res['detail'] = 'VACUOUS: witness assert(0) not reachable'
                    else:
                        res['verdict'] = 'unknown'; res['detail'] = 'witness twin undecided (%s)' % w['verdict']; res['witness'] = 'undecided'
            elif r['verdict'] == 'violated':
                if r.get('unwind_fail'):
                    res['verdict'] = 'error'; res['detail'] = 'unwinding assertion failed: --unwind %s too small' % ob.unwind
                else:
                    res.update(s.replay_cbmc(ob, r))
                    if res['verdict'] == 'unconfirmed' and ob.fallback is None and ob.fallback_factory is not None:
                        try: ob.fallback = ob.fallback_factory()
                        except Exception as e: res['fallback_error'] = str(e)[-300:]
                    if res['verdict'] == 'unconfirmed' and ob.fallback is not None:
                        # counterexample of the uninterpreted-function abstraction is not a behaviour of the real code: decide the precise encoding instead
                        res2 = s.run_cbmc_ob(ob.fallback)
                        res2['refined_from'] = '%s counterexample did not reproduce natively; re-decided in mode %s' % (ob.mode, ob.fallback.mode)
                        res2['time'] = round((res.get('time') or 0) + (res2.get('time') or 0), 2)
                        ob.mode = ob.fallback.mode
                        return res2
            else:
                res['detail'] = (r.get('tail') or '')[-400:]
            return res
        except ToolFailure as e:
            return {'verdict': 'error', 'detail': str(e)[-1500:]}
        except Exception as e:
            return {'verdict': 'error', 'detail': traceback.format_exc()[-1500:]}

    def replay_cbmc(s, ob, r):
        """native replay of a CBMC counterexample against the real code"""
        rd = os.path.join(VERIF, 'replays'); os.makedirs(rd, exist_ok=True)
        base = os.path.join(rd, '%s.%s' % (s.prop, ob.oid.replace('/', '_')))
        inp = base + '.in'
        write(inp, ''.join('%s %x\n' % kv for kv in sorted(r['inputs'].items())))
        write(base + '.trace.txt', r.get('raw', '')[-200000:])
        if ob.custom_replay is not None:
            try:
                conf, out = ob.custom_replay(s, ob, inp, r)
            except ToolFailure as e:
                return {'verdict': 'error', 'detail': 'replay build failed: ' + str(e)[-800:], 'replay': inp}
            info = {'replay': inp, 'replay_out': out[-600:], 'inputs': {k: hex(v) for k, v in list(r['inputs'].items())[:40]}}
            info['verdict'] = 'violated' if conf else 'unconfirmed'; info['confirmed'] = bool(conf)
            return info
        exe = os.path.join(s.wd, 'replay_%s' % abs(hash(ob.oid)))
        memsafety = any(('dereference failure' in f or 'bounds' in f or 'pointer' in f) for f in r['failed'])
        files = list(ob.replay_files if ob.replay_files is not None else [f for f in ob.files if not f.endswith('.gen.c')])
        cmd = ['gcc', '-O1', '-g', '-w', '-ffp-contract=off', '-DVERIF_REPLAY', '-DHFUNC=' + ob.func, '-I', os.path.join(VERIF, 'harness')]
        if memsafety: cmd += ['-fsanitize=address,undefined', '-fno-sanitize-recover=all']
        for i in ob.incs: cmd += ['-I', i]
        cmd += ['-D' + d for d in ob.defines + ob.replay_defines]
        cmd += files + [os.path.join(VERIF, 'harness', 'replay_main.c')] + list(ob.replay_link) + ['-o', exe, '-lm']
        if ob.replay_link: cmd += ['-Wl,-rpath,' + os.path.dirname(ob.replay_link[0]), '-Wl,--allow-shlib-undefined', '-lstdc++']
        rc, out, err, dt = run(cmd, timeout=600)
        script = base + '.sh'
        write(script, '#!/bin/sh\n# replay of %s %s; inputs in %s\n# (paths under _work exist only while the check runs; re-run: ./check %s --replay %s)\n%s\n%s %s\n'
              % (s.prop, ob.oid, inp, s.prop, inp, ' '.join(cmd), exe, inp))
        if rc != 0:
            return {'verdict': 'error', 'detail': 'replay build failed: ' + (out + err)[-800:], 'replay': inp}
        rc, out, err, dt = run([exe, inp], timeout=120)
        confirmed = (rc == 1 and 'REPLAY-FAIL' in out) or (memsafety and rc != 0 and ('AddressSanitizer' in err or 'runtime error' in err))
        info = {'replay': inp, 'replay_out': (out + err)[-600:], 'inputs': {k: hex(v) for k, v in list(r['inputs'].items())[:40]}}
        if confirmed:
            info['verdict'] = 'violated'; info['confirmed'] = True
            info['fail_ids'] = sorted(set(l.split(' ', 1)[1] for l in out.split('\n') if l.startswith('REPLAY-FAIL')))
        elif memsafety:
            info['verdict'] = 'ub-suspect'; info['confirmed'] = False
        else:
            info['verdict'] = 'unconfirmed'; info['confirmed'] = False
        return info

    def run_sym_ob(s, ob):
        q = multiprocessing.Queue()
        def work():
            try:
                r = ob.fn()
            except Exception as e:
                r = {'verdict': 'error', 'detail': traceback.format_exc()[-2000:]}
            q.put(r)
        t0 = time.time()
        p = multiprocessing.Process(target=work); p.start()
        try:
            r = q.get(timeout=ob.timeout)
        except queue.Empty:
            r = {'verdict': 'unknown', 'detail': 'obligation budget %ss exceeded' % ob.timeout}
        p.join(0.2)
        if p.is_alive():
            p.kill()
        r['time'] = round(time.time() - t0, 2)
        if r.get('verdict') == 'violated':      # confirmed natively inside the worker (symcase.replay)
            rd = os.path.join(VERIF, 'replays'); os.makedirs(rd, exist_ok=True)
            rp = os.path.join(rd, '%s.%s.json' % (s.prop, ob.oid.replace('/', '_')))
            jdump(rp, {'property': s.prop, 'obligation': ob.oid, 'counterexample': r.get('model'),
                       'how': 'inputs of the z3 model, rounded to the element type, passed to the natively compiled real wrapper; claim re-evaluated on the returned values'})
            r['replay'] = rp
        return r

    def run_all(s, jobs=None):
        jobs = jobs or getattr(s, 'jobs', None) or NCPU
        order = sorted(s.obs, key=lambda o: -o.weight)
        def one(ob):
            t0 = time.time()
            ob.result = s.run_cbmc_ob(ob) if ob.kind == 'cbmc' else s.run_sym_ob(ob)
            ob.result.setdefault('time', round(time.time() - t0, 2))
            v = ob.result['verdict']
            sys.stderr.write('  [%s] %-60s %-11s %6.1fs %s\n' % (s.prop, ob.oid[:60], v, ob.result.get('time') or 0, (ob.result.get('backend') or '')))
            sys.stderr.flush()
        with ThreadPoolExecutor(max_workers=jobs) as ex:
            list(ex.map(one, order))

    # ---- verdict, evidence
    def finish(s):
        known = []
        kf = os.path.join(VERIF, 'known_findings.json')
        if os.path.exists(kf):
            known = [k for k in json.load(open(kf)).get('findings', []) if k.get('property') == s.prop and k.get('status') == 'known']
        viol = []; knownhit = []; undec = []; errors = []; unconf = []; disch = 0; nontrivial = 0
        solver_time = {}
        for ob in s.obs:
            r = ob.result or {'verdict': 'error', 'detail': 'not run'}
            v = r['verdict']
            solver_time[r.get('backend') or ob.engine] = round(solver_time.get(r.get('backend') or ob.engine, 0) + (r.get('time') or 0), 2)
            if v == 'holds':
                disch += 1
                if ob.kind != 'cbmc' or r.get('witness') == 'reachable' or not ob.witness: nontrivial += 1
            elif v == 'violated':
                k = [k for k in known if k.get('obligation') == ob.oid]
                if k: knownhit.append((ob, k[0]))
                else: viol.append(ob)
            elif v in ('unconfirmed', 'ub-suspect'): unconf.append(ob)
            elif v == 'unknown': undec.append(ob)
            else: errors.append(ob)
        for ob, k in knownhit:
            print('KNOWN-FINDING: property=%s %s (%s)' % (s.prop, k.get('what', ''), ob.oid))
        for ob in unconf:
            print('%s: property=%s obligation=%s counterexample did not reproduce natively; not counted as discharged' %
                  ('UB-SUSPECT' if ob.result['verdict'] == 'ub-suspect' else 'UNCONFIRMED', s.prop, ob.oid))
        for ob in undec:
            print('UNDECIDED: property=%s obligation=%s %s (%s)' % (s.prop, ob.oid, 'core' if ob.core else 'budgeted-optional', (ob.result.get('detail') or '')[:100].replace('\n', ' ')))
        for ob in errors:
            print('TOOL-ERROR: property=%s obligation=%s %s' % (s.prop, ob.oid, (ob.result.get('detail') or '')[-600:]))
        for ob in viol:
            print('VIOLATION property=%s replay=%s obligation=%s' % (s.prop, ob.result.get('replay', '-'), ob.oid))
        samples = []
        for ob in s.obs[:400]:
            r = ob.result or {}
            samples.append({'obligation': ob.oid, 'claim': ob.desc, 'engine': ob.engine, 'mode': ob.mode, 'bounds': ob.bounds, 'verdict': r.get('verdict'),
                            'backend': r.get('backend'), 'solver_s': r.get('time'), 'witness': r.get('witness'),
                            **({'paths': r.get('paths'), 'queries': r.get('queries')} if ob.kind == 'sym' else {'unwind': ob.unwind}),
                            **({'detail': r.get('detail')} if r.get('detail') and r.get('verdict') != 'holds' else {}),
                            **({'subresults': r.get('subresults')} if r.get('subresults') and r.get('verdict') != 'holds' else {}),
                            **({'replay': r.get('replay'), 'inputs': r.get('inputs') or r.get('model')} if r.get('verdict') in ('violated', 'unconfirmed', 'ub-suspect') else {})})
        nq = sum((ob.result or {}).get('queries', 1) + (1 if ob.kind == 'cbmc' and ob.witness else 0) for ob in s.obs)
        ev = {
            'property_id': s.prop, 'tier': s.tier, 'seed': s.seed, 'level': 'model_checking',
            'coverage': {
                'evaluations': nq,
                'distinct_nontrivial': nontrivial,
                'rule': 'one evaluation = one solver query (CBMC run incl. its reachability-witness twin, or one z3 query of engine C); an obligation is '
                        'non-trivial if it was discharged AND its witness twin (assert(0) at the end of the harness / satisfiable path condition) was reachable; '
                        'obligations are distinct by (function, claim, slice)',
                'obligations': len(s.obs), 'discharged': disch, 'known_findings': len(knownhit), 'violations': len(viol),
                'undecided': [o.oid for o in undec], 'unconfirmed': [o.oid for o in unconf], 'tool_errors': [o.oid for o in errors],
                'not_encodable': s.not_encodable, 'outside_claim': s.outside,
                'checker_cmd': './check %s --tier %s' % (s.prop, s.tier),
                'trusted_base': s.trusted or ['clang-14 -O1 front/mid end', 'cbmc 6.11.0 + SAT/SMT back ends', 'z3 5.1 nlsat (engine C)', 'vf/ll2c.py, vf/irsym.py (validated each run against the native build)'],
                'functions_encoded': s.functions, 'stubs': s.stubs, 'solver_time_s': solver_time,
                'traces_validated_against_impl': s.validation['vectors'], 'translator_validation': s.validation,
                'states': max(1, sum((ob.result or {}).get('paths', 1) or 1 for ob in s.obs)),
                'transitions': max(1, nq),
                'samples': samples, 'aux': s.aux,
                'exhaustive': False,
            },
            'assumptions': s.assumptions,
            'wall_s': round(time.time() - s.t0, 1),
            'violations': len(viol),
        }
        jdump(os.path.join(VERIF, 'evidence', s.prop + '.json'), ev)
        print('%s tier=%s obligations=%d discharged=%d known=%d undecided=%d unconfirmed=%d errors=%d violations=%d wall=%.0fs' %
              (s.prop, s.tier, len(s.obs), disch, len(knownhit), len(undec), len(unconf), len(errors), len(viol), time.time() - s.t0))
        if viol: return 1
        if errors: return 2
        return 0
