"""Translator validation: the gcc-built generated C and the natively built real wrapper (g++ and clang++) are run
on the same input vectors through ctypes; every output byte, the return value and the exception id must agree
(floating-point values: same bits or both NaN).  Any mismatch is a tool failure, never a VIOLATION."""
import os, sys
import ctypes, random, struct, math
from .common import *
from .ll2c import IntTy, FloatTy, PtrTy, VoidTy, NamedTy, StructTy, ArrTy
from .layout import Layout

SPECIAL32 = [0, 0x80000000, 0x3f800000, 0xbf800000, 0x7f800000, 0xff800000, 0x7fc00000, 0xffc00001, 0x00000001, 0x807fffff,
             0x00800000, 0x7f7fffff, 0xff7fffff, 0x33000000, 0x33000001, 0x477fe000, 0x477ff000, 0x38800000, 0x387fffff, 0x40000000, 0x3f000000]
SPECIAL64 = [0, 1 << 63, 0x3ff0000000000000, 0xbff0000000000000, 0x7ff0000000000000, 0xfff0000000000000, 0x7ff8000000000000, 1,
             0x0010000000000000, 0x7fefffffffffffff, 0x4000000000000000, 0x3fe0000000000000]


def isnanh(b): return (b >> 10) & 31 == 31 and (b & 0x3ff) != 0


def rnd_scalar(rng, kind, size, mode):
    if kind == 'h': kind = 'i'
    if kind == 'f':
        if mode == 0:
            v = rng.getrandbits(8 * size)
        elif mode == 1:
            x = float(rng.randint(-4, 4)); v = struct.unpack('<I' if size == 4 else '<Q', struct.pack('<f' if size == 4 else '<d', x))[0]
        elif mode == 2:
            x = rng.uniform(-4, 4); v = struct.unpack('<I' if size == 4 else '<Q', struct.pack('<f' if size == 4 else '<d', x))[0]
        elif mode == 3:
            v = rng.choice(SPECIAL32 if size == 4 else SPECIAL64)
        else:
            x = rng.uniform(-1, 1) * 10.0 ** rng.randint(-30, 30)
            v = struct.unpack('<I' if size == 4 else '<Q', struct.pack('<f' if size == 4 else '<d', x))[0]
        return v
    if kind == 'p': return 0
    if mode in (1, 2): return rng.randint(-8, 8) & ((1 << (8 * size)) - 1)
    if mode == 3: return rng.choice([0, 1, (1 << (8 * size)) - 1, 1 << (8 * size - 1), (1 << (8 * size - 1)) - 1, 2, 0x7c00, 0x3c00, 0x8000, 0xfc00, 0x7e00, 0x3ff, 0x400]) & ((1 << (8 * size)) - 1)
    return rng.getrandbits(8 * size)


def validate(chk, unit, hp, bp, funcs=None, nvec=400, bufsizes=None, skip=(), compilers=('g++', CLANGXX), int_ranges=None, half_ret=()):
    """returns (#vectors compared, #functions); raises ToolFailure on any mismatch"""
    m = unit.parsed(); L = Layout(m)
    gen = ctypes.CDLL(unit.gen_so(hp, bp))
    reals = [(c, ctypes.CDLL(unit.real_so(c, '-O2' if c == 'g++' else '-O1'))) for c in compilers]
    rng = random.Random(chk.seed)
    nv = 0; nf = 0
    for fn in (funcs or unit.wrapper_names()):
        if fn in skip: continue
        f = m.funcs['@' + fn]
        spec = []
        ok = True
        for k, (t, n) in enumerate(f.params):
            rt = L.res(t)
            if isinstance(rt, (IntTy, FloatTy)):
                spec.append(('s', 'i' if isinstance(rt, IntTy) else 'f', L.sizeof(rt), bool(f.signext[k]) if k < len(f.signext) else False))
            elif isinstance(rt, PtrTy):
                pt = L.res(rt.to)
                if isinstance(pt, (IntTy, FloatTy)):
                    nb = (bufsizes or {}).get(fn, {}).get(k, 256)      # room for a Matrix44<double> (128 bytes) and then some
                    es = L.sizeof(pt)
                    spec.append(('b', [(o, 'i' if isinstance(pt, IntTy) else 'f', es) for o in range(0, nb, es)], nb))
                else:
                    try:
                        fl = L.flatten(pt); spec.append(('b', fl, L.sizeof(pt)))
                    except Exception:
                        ok = False
            else:
                ok = False
        if not ok or any(k == 'p' for sp in spec if sp[0] == 'b' for (_, k, _) in sp[1]):
            chk.validation.setdefault('skipped', []).append(fn); continue
        rt = L.res(f.ret)
        def ctype_scalar(kind, size, signed=False):
            if kind == 'f': return ctypes.c_float if size == 4 else ctypes.c_double
            if signed: return {1: ctypes.c_int8, 2: ctypes.c_int16, 4: ctypes.c_int32, 8: ctypes.c_int64}[size]     # ABI: signext parameters
            return {1: ctypes.c_uint8, 2: ctypes.c_uint16, 4: ctypes.c_uint32, 8: ctypes.c_uint64}[size]
        restype = None
        if isinstance(rt, IntTy): restype = ctype_scalar('i', L.sizeof(rt))
        elif isinstance(rt, FloatTy): restype = ctype_scalar('f', L.sizeof(rt))
        elif not isinstance(rt, VoidTy):
            chk.validation.setdefault('skipped', []).append(fn); continue
        libs = [('gen', gen)] + reals
        for _, lib in libs:
            getattr(lib, fn).restype = restype
            getattr(lib, fn).argtypes = [ctype_scalar(sp[1], sp[2], sp[3]) if sp[0] == 's' else ctypes.c_void_p for sp in spec]
        nf += 1
        if os.environ.get('VERIF_TRACE'): sys.stderr.write('[natval] %s\n' % fn); sys.stderr.flush()
        for v in range(nvec):
            mode = v % 5
            scal = []; bufs = []
            for sp in spec:
                if sp[0] == 's':
                    bits = rnd_scalar(rng, sp[1], sp[2], mode)
                    if int_ranges and fn in int_ranges and sp[1] == 'i': bits = rng.randint(*int_ranges[fn])
                    if sp[1] == 'f':
                        val = struct.unpack('<f' if sp[2] == 4 else '<d', struct.pack('<I' if sp[2] == 4 else '<Q', bits))[0]
                    else:
                        val = bits
                        if sp[3] and val >= 1 << (8 * sp[2] - 1): val -= 1 << (8 * sp[2])
                    scal.append(val)
                else:
                    b = bytearray(sp[2])
                    for (o, k, sz) in sp[1]:
                        b[o:o + sz] = rnd_scalar(rng, k, sz, mode).to_bytes(sz, 'little')
                    bufs.append(bytes(b))
            outs = []
            for name, lib in libs:
                lib.verif_clear_exc()
                cb = [ctypes.create_string_buffer(b, len(b)) for b in bufs]
                args = []; bi = 0; si = 0
                for sp in spec:
                    if sp[0] == 's': args.append(scal[si]); si += 1
                    else: args.append(ctypes.cast(cb[bi], ctypes.c_void_p)); bi += 1
                r = getattr(lib, fn)(*args)
                outs.append((name, r, [c.raw for c in cb], lib.verif_get_exc()))
            ref = outs[0]
            for o in outs[1:]:
                bad = None
                if o[3] != ref[3]: bad = 'exception id %s vs %s' % (ref[3], o[3])
                elif ref[3] == 0:
                    if restype is not None:
                        if isinstance(rt, FloatTy):
                            if not (ref[1] == o[1] and math.copysign(1, ref[1]) == math.copysign(1, o[1]) or (ref[1] != ref[1] and o[1] != o[1])): bad = 'return %r vs %r' % (ref[1], o[1])
                        elif ref[1] != o[1]:
                            if not (fn in half_ret and isnanh(ref[1]) and isnanh(o[1])): bad = 'return %r vs %r' % (ref[1], o[1])
                    bi = 0
                    for sp in spec:
                        if sp[0] != 'b': continue
                        a = ref[2][bi]; b = o[2][bi]; bi += 1
                        if a == b: continue
                        for (off, k, sz) in sp[1]:
                            x = a[off:off + sz]; y = b[off:off + sz]
                            if x == y: continue
                            if k == 'f':
                                fx = struct.unpack('<f' if sz == 4 else '<d', x)[0]; fy = struct.unpack('<f' if sz == 4 else '<d', y)[0]
                                if fx != fx and fy != fy: continue
                            if k == 'h' and isnanh(int.from_bytes(x, 'little')) and isnanh(int.from_bytes(y, 'little')): continue
                            bad = 'buffer byte offset %d: %s vs %s' % (off, x.hex(), y.hex()); break
                        if bad: break
                if bad:
                    raise ToolFailure('translator validation mismatch in %s (generated C vs real code built by %s), vector %d mode %d: %s; scalars=%r bufs=%r'
                                      % (fn, o[0], v, mode, bad, scal, [b.hex() for b in bufs]))
            nv += 1
    chk.validation['vectors'] += nv; chk.validation['functions'] += nf
    return nv, nf
