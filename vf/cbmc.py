"""CBMC driver: goto-cc compile once, then one cbmc process per (harness function, back end); races back ends;
parses per-assertion verdicts and the inputs of a counterexample trace."""
import os, re, threading, subprocess, time
from .common import *

BACKENDS = {
    'minisat': [],
    'cadical': ['--sat-solver', 'cadical'],
    'kissat': ['--external-sat-solver', 'kissat'],
    'z3': ['--z3'],
    'cvc5i': ['--cvc5', '--slice-formula'],   # PATH shim adds --solve-bv-as-int=sum
}
BASE_CHECKS = ['--no-standard-checks', '--bounds-check', '--pointer-check', '--div-by-zero-check',
               '--undefined-shift-check', '--unwinding-assertions', '--drop-unused-functions', '--object-bits', '11']


def goto_cc(out, files, defines=(), incs=()):
    cmd = ['goto-cc', '-D__CPROVER__', '-o', out] + ['-D' + d for d in defines]
    for i in incs: cmd += ['-I', i]
    cmd += list(files)
    must(cmd, timeout=900)
    return out


_res_line = re.compile(r'^\[(?P<id>[^\]]+)\]\s+(?:line \d+\s+)?(?P<desc>.*): (?P<v>SUCCESS|FAILURE)\s*$')
_state = re.compile(r'^State \d+ file (\S+) function (\S+) line (\d+)')
_assign = re.compile(r'^  ([A-Za-z_][\w\.\[\]l]*)=(.*) \(([01 ]+)\)\s*$')


def parse_output(out):
    res = {'verdict': 'unknown', 'failed': [], 'passed': 0, 'unwind_fail': False, 'assertions': 0}
    for ln in out.split('\n'):
        m = _res_line.match(ln)
        if m:
            res['assertions'] += 1
            if m.group('v') == 'FAILURE':
                res['failed'].append(m.group('desc').strip())
                if 'unwinding assertion' in m.group('desc'): res['unwind_fail'] = True
            else:
                res['passed'] += 1
    if 'VERIFICATION SUCCESSFUL' in out: res['verdict'] = 'holds'
    elif 'VERIFICATION FAILED' in out: res['verdict'] = 'violated'
    elif re.search(r'(PARSING ERROR|CONVERSION ERROR)', out): res['verdict'] = 'error'
    elif re.search(r'(VERIFICATION ERROR|Out of memory|std::bad_alloc)', out):
        # the back end gave up on the query (solver error, memory cap): this decides nothing - it is not a defect of the harness
        res['verdict'] = 'unknown'; res['gave_up'] = True
    return res


def trace_inputs(out, func):
    """first value assigned to each harness-local lhs inside `func` in the plain-text trace -> {lhs: int}"""
    vals = {}
    cur = None
    for ln in out.split('\n'):
        m = _state.match(ln)
        if m:
            cur = m.group(2); continue
        if cur == func:
            a = _assign.match(ln)
            if a:
                lhs = re.sub(r'\[(\d+)l?\]', r'[\1]', a.group(1))
                if lhs not in vals:
                    vals[lhs] = int(a.group(3).replace(' ', ''), 2)
    return vals


class Proc:
    def __init__(s, cmd, env, mem_gb):
        import resource
        def pre():
            os.setsid()
            if mem_gb:
                lim = int(mem_gb * (1 << 30)); resource.setrlimit(resource.RLIMIT_AS, (lim, lim))
        s.t0 = time.time()
        s.p = subprocess.Popen(cmd, stdout=subprocess.PIPE, stderr=subprocess.STDOUT, env=env, preexec_fn=pre,
                               stdin=subprocess.DEVNULL, text=True, errors='replace')
        s.out = None
        s.th = threading.Thread(target=s._read, daemon=True); s.th.start()
    def _read(s):
        s.out = s.p.communicate()[0]; s.dt = time.time() - s.t0
    def done(s): return s.out is not None
    def kill(s): killpg(s.p)


def cbmc(gb, func, backends=('minisat',), unwind=None, timeout=60, extra=(), mem_gb=12, unwindset=None, object_bits=None, partial_loops=False):
    """Race the given back ends on one harness function of goto binary `gb`.
    returns dict(verdict holds|violated|unknown|error, backend, time, failed, inputs, tail)"""
    env = dict(os.environ); env['PATH'] = os.path.join(VERIF, 'stubs', 'cvc5shim') + ':' + env['PATH']
    td = os.path.join(os.path.dirname(os.path.abspath(gb)), 'tmp'); os.makedirs(td, exist_ok=True)
    env['TMPDIR'] = td      # CNF / SMT2 files of killed back ends stay inside the check's work directory (removed with it), not in /tmp
    procs = {}
    for b in backends:
        base = [c for c in BASE_CHECKS if not (partial_loops and c == '--unwinding-assertions')]
        if '--object-bits' in extra: base = base[:base.index('--object-bits')] + base[base.index('--object-bits') + 2:]
        cmd = ['cbmc', gb, '--function', func, '--trace'] + base + BACKENDS[b] + list(extra)
        if unwind is not None: cmd += ['--unwind', str(unwind)]
        if unwindset: cmd += ['--unwindset', unwindset]
        if object_bits: cmd += ['--object-bits', str(object_bits)]
        procs[b] = Proc(cmd, env, mem_gb)
    t0 = time.time(); best = None; tails = {}
    while procs and time.time() - t0 < timeout:
        for b, pr in list(procs.items()):
            if pr.done():
                del procs[b]
                r = parse_output(pr.out); r['backend'] = b; r['time'] = round(pr.dt, 2)
                tails[b] = pr.out[-600:]
                if r['verdict'] in ('holds', 'violated'):
                    r['inputs'] = trace_inputs(pr.out, func) if r['verdict'] == 'violated' else {}
                    r['raw'] = pr.out if r['verdict'] == 'violated' else ''
                    best = r; break
                if best is None or best['verdict'] == 'unknown': best = r; best['tail'] = pr.out[-1500:]
        if best and best['verdict'] in ('holds', 'violated'): break
        time.sleep(0.05)
    for pr in procs.values(): pr.kill()
    if best is None:
        best = {'verdict': 'unknown', 'backend': ','.join(backends), 'time': round(time.time() - t0, 2), 'failed': [], 'tail': 'timeout %ss' % timeout, 'passed': 0, 'assertions': 0}
    best['wall'] = round(time.time() - t0, 2)
    return best
