"""Shared paths, subprocess helpers and small utilities for the verification framework."""
import os, subprocess, time, json, shutil, signal, hashlib

VERIF = os.path.dirname(os.path.dirname(os.path.abspath(__file__)))
REPO = os.environ.get('VERIF_REPO', '/repo')
SRC = os.path.join(REPO, 'src', 'Imath')
PYSRC = os.path.join(REPO, 'src', 'python', 'PyImath')
NCPU = int(os.environ.get('VERIF_JOBS', '0')) or os.cpu_count() or 4

CLANGXX = 'clang++-14'
CLANG = 'clang-14'
LLVM_LINK = 'llvm-link-14'


class ToolFailure(Exception):
    """The machinery (not the code under test) is broken: exit code 2, never a VIOLATION."""


def workdir(prop):
    tag = os.environ.get('VERIF_WORKTAG')      # lets two runs of the same property coexist (development convenience)
    d = os.path.join(VERIF, '_work', prop + ('.' + tag if tag else ''))
    shutil.rmtree(d, ignore_errors=True)
    os.makedirs(d)
    return d


def run(cmd, timeout=None, cwd=None, env=None, mem_gb=None, stdin=None):
    """Run cmd (list). Returns (rc, stdout, stderr, wall_s). rc=-9 on timeout."""
    t0 = time.time()
    pre = None
    if mem_gb:
        import resource

        def pre():
            os.setsid()
            lim = int(mem_gb * (1 << 30))
            resource.setrlimit(resource.RLIMIT_AS, (lim, lim))
    else:
        pre = os.setsid
    p = subprocess.Popen(cmd, stdout=subprocess.PIPE, stderr=subprocess.PIPE, cwd=cwd, env=env,
                         stdin=subprocess.PIPE if stdin is not None else subprocess.DEVNULL,
                         preexec_fn=pre, text=True, errors='replace')
    try:
        out, err = p.communicate(stdin, timeout=timeout)
        rc = p.returncode
    except subprocess.TimeoutExpired:
        killpg(p)
        out, err = p.communicate()
        rc = -9
    return rc, out, err, time.time() - t0


def killpg(p):
    try:
        os.killpg(os.getpgid(p.pid), signal.SIGKILL)
    except Exception:
        try:
            p.kill()
        except Exception:
            pass


def must(cmd, **kw):
    rc, out, err, dt = run(cmd, **kw)
    if rc != 0:
        raise ToolFailure('command failed (rc=%s): %s\n%s\n%s' % (rc, ' '.join(cmd), out[-3000:], err[-3000:]))
    return out


def sha(path):
    h = hashlib.sha256()
    with open(path, 'rb') as f:
        h.update(f.read())
    return h.hexdigest()[:16]


def write(path, text):
    os.makedirs(os.path.dirname(path), exist_ok=True)
    with open(path, 'w') as f:
        f.write(text)


def jdump(path, obj):
    os.makedirs(os.path.dirname(path), exist_ok=True)
    tmp = path + '.tmp'
    with open(tmp, 'w') as f:
        json.dump(obj, f, indent=1, sort_keys=False, default=str)
        f.write('\n')
    os.replace(tmp, path)
