"""Declarative engine-C obligations: one Case = one wrapper function, symbolic inputs, a claim written once
(polymorphic over z3 terms and Fractions) that is (a) proved on every path with z3 over the reals,
(b) evaluated on the natively compiled real code for counterexample replay, and (c) used to validate the symbolic
executor itself against the native build on concrete inputs."""
import os, sys
import ctypes, random, time, struct, traceback
from fractions import Fraction
import z3
from .common import *
from . import irsym as S
from .irsym import Rat, R, rz, Ptr, State, Sym, solve, model_value, eq, le, lt, ne, AND, OR, NOT, IMPLIES
from .ll2c import EXC_IDS, Unsupported


class In:
    """pointer to n reals; fixed = {index: constant} pins entries to concrete values (branches on them stay concrete)"""
    def __init__(s, name, n, fixed=None, param=None):
        s.name = name; s.n = n; s.fixed = fixed or {}
        s.param = param     # (k, fn): the n values are fn([k free parameters]) - e.g. a rational parametrisation of unit vectors
class Out:
    def __init__(s, name, n): s.name = name; s.n = n
class Val:
    def __init__(s, name): s.name = name
class Int:
    def __init__(s, v, bits=32): s.v = v; s.bits = bits
class Raw:
    """object with mixed layout: fields = [(byte offset, 'r', varname) | (off, 'i', (value, size)) | (off, 'p', None)], nbytes total"""
    def __init__(s, name, nbytes, fields): s.name = name; s.nbytes = nbytes; s.fields = fields


class Ctx:
    def __init__(s, sym, st, model=None, conc=False):
        s.S = sym; s.st = st; s.model = model; s.conc = conc; s.extra = []; s.freevars = {}
    def free(s, name):
        """fresh universally quantified real in the claim (existential witness of a counterexample)"""
        if s.conc: return Rat(s.model.get(name, Fraction(0)))
        v = z3.Real('free_' + name); s.freevars[name] = v; return Rat(v)
    def sincos(s, x):
        """(sin x, cos x) as the executor sees them for the same argument term"""
        if s.conc:
            import math
            f = float(R(x).frac()); return Rat(Fraction(math.sin(f))), Rat(Fraction(math.cos(f)))
        return s.S.sincos(s.st, x)
    def sqrt(s, x):
        x = R(x)
        if s.conc:
            import math
            return Rat(Fraction(math.sqrt(max(0.0, float(x.frac())))))
        # reuse the executor's own witness when the radicand is the same polynomial (premise-free identity check)
        for (e, y) in s.st.wit:
            idn = (x.n * e.d == e.n * x.d)
            if isinstance(idn, bool):
                if idn: return Rat(y)
                continue
            chk = z3.Solver(); chk.set('timeout', 1000); chk.add(z3.Not(idn))
            if chk.check() == z3.unsat: return Rat(y)
        s.S.fresh += 1; y = z3.Real('csqrt_%d' % s.S.fresh)
        s.extra += [y >= 0, y * y * x.d == x.n]
        return Rat(y)
    def assume(s, f):
        """side constraint on free variables: the claim is (assumptions => claim)"""
        s.extra.append(f)


class Case:
    def __init__(s, name, func, args, claim, pre=None, T='d', setup=None, timeout_ms=20000, desc='', bounds='', max_paths=3000,
                 tier='quick', core=True, budget=150, nvalid=6, sample=None, expect_paths=None, path_timeout_ms=3000, allow_divzero=False):
        s.name = name; s.func = func.replace('{T}', T); s.args = args; s.claim = claim; s.pre = pre; s.T = T; s.setup = setup
        s.timeout_ms = timeout_ms; s.desc = desc; s.bounds = bounds; s.max_paths = max_paths; s.tier = tier; s.core = core
        s.budget = budget; s.nvalid = nvalid; s.sample = sample; s.path_timeout_ms = path_timeout_ms; s.allow_divzero = allow_divzero
    @property
    def esz(s): return 4 if s.T == 'f' else 8


def _build_state(case, conc_inputs=None):
    """returns (state, I, argv, outnames).  conc_inputs: {name: [Fraction]} for a concrete run"""
    st = State(); I = {}; argv = []; bufs = []
    esz = case.esz
    def var(nm):
        return z3.Real(nm)
    for a in case.args:
        if isinstance(a, In):
            if a.param:
                k, fn = a.param
                ps = [Rat(conc_inputs[a.name + '_p'][i]) if conc_inputs is not None else Rat(var('%s_p_%d' % (a.name, i))) for i in range(k)]
                vals = [R(v) for v in fn(ps)]
                I[a.name + '_p'] = ps
            else:
                vals = [Rat(Fraction(a.fixed[i])) if i in a.fixed else Rat(conc_inputs[a.name][i]) if conc_inputs is not None else Rat(var('%s_%d' % (a.name, i))) for i in range(a.n)]
            for i, v in enumerate(vals): st.mem[(a.name, i * esz)] = v
            I[a.name] = vals; argv.append(Ptr(a.name, 0)); bufs.append((a.name, a.n))
        elif isinstance(a, Out):
            for i in range(a.n):
                st.mem[(a.name, i * esz)] = Rat(Fraction(777 + i)) if conc_inputs is not None else Rat(var('%s_init_%d' % (a.name, i)))
            argv.append(Ptr(a.name, 0)); bufs.append((a.name, a.n))
        elif isinstance(a, Val):
            v = Rat(conc_inputs[a.name][0]) if conc_inputs is not None else Rat(var(a.name))
            I[a.name] = v; argv.append(v)
        elif isinstance(a, Int):
            argv.append(a.v & ((1 << a.bits) - 1))
        elif isinstance(a, Raw):
            vals = {}
            for off, kind, spec in a.fields:
                if kind == 'r':
                    v = Rat(conc_inputs[spec][0]) if conc_inputs is not None else Rat(var(spec))
                    st.mem[(a.name, off)] = v; vals[spec] = v; I[spec] = v
                elif kind == 'c':      # concrete real field: spec = (name, Fraction)
                    v = Rat(Fraction(spec[1])); st.mem[(a.name, off)] = v; I[spec[0]] = v
                elif kind == 'i': st.mem[(a.name, off)] = spec[0]
                elif kind == 'p': st.mem[(a.name, off)] = Ptr('opaque_' + a.name, 0)
            argv.append(Ptr(a.name, 0))
        else:
            raise ValueError(a)
    return st, I, argv, bufs


def _outputs(case, fs, rv, bufs):
    O = {}
    for name, n in bufs:
        O[name] = [fs.mem.get((name, i * case.esz)) for i in range(n)]
    O['ret'] = rv
    O['exc'] = 0 if fs.exc is None else EXC_IDS.get(str(fs.exc).lstrip('@'), 99)
    return O


def input_names(case):
    out = []
    for a in case.args:
        if isinstance(a, In): out += [(a.name + '_p', a.param[0])] if a.param else [(a.name, a.n)]
        elif isinstance(a, Val): out += [(a.name, 1)]
        elif isinstance(a, Raw): out += [(spec, 1) for off, kind, spec in a.fields if kind == 'r']
    return out


def run_native(lib, case, inputs):
    """call the real wrapper; inputs {name:[Fraction|float]} -> O (Fractions of the returned doubles/floats)"""
    cty = ctypes.c_float if case.T == 'f' else ctypes.c_double
    argv = []; keep = []; bufs = []
    for a in case.args:
        if isinstance(a, In):
            if a.param:
                vals = [v.frac() for v in map(R, a.param[1]([Rat(Fraction(x)) for x in inputs[a.name + '_p']]))]
            else:
                vals = [a.fixed[i] if i in a.fixed else x for i, x in enumerate(inputs[a.name])]
            arr = (cty * a.n)(*[float(x) for x in vals]); keep.append(arr); argv.append(ctypes.cast(arr, ctypes.c_void_p)); bufs.append((a.name, a.n, arr))
        elif isinstance(a, Out):
            arr = (cty * a.n)(*[777.0 + i for i in range(a.n)]); keep.append(arr); argv.append(ctypes.cast(arr, ctypes.c_void_p)); bufs.append((a.name, a.n, arr))
        elif isinstance(a, Val): argv.append(cty(float(inputs[a.name][0])))
        elif isinstance(a, Int): argv.append(ctypes.c_int64(a.v) if a.bits == 64 else ctypes.c_int32(a.v if a.v < (1 << 31) else a.v - (1 << 32)))
        elif isinstance(a, Raw):
            b = bytearray(a.nbytes)
            for off, kind, spec in a.fields:
                if kind == 'r': b[off:off + case.esz] = struct.pack('<f' if case.T == 'f' else '<d', float(inputs[spec][0]))
                elif kind == 'c': b[off:off + case.esz] = struct.pack('<f' if case.T == 'f' else '<d', float(spec[1]))
                elif kind == 'i': b[off:off + spec[1]] = int(spec[0]).to_bytes(spec[1], 'little')
            cb = ctypes.create_string_buffer(bytes(b), a.nbytes); keep.append(cb); argv.append(ctypes.cast(cb, ctypes.c_void_p))
    fn = getattr(lib, case.func)
    fn.restype = case.restype if hasattr(case, 'restype') else None
    lib.verif_clear_exc()
    rv = fn(*argv)
    O = {}
    for name, n, arr in bufs:
        O[name] = [Rat(Fraction(arr[i])) if arr[i] == arr[i] and abs(arr[i]) != float('inf') else None for i in range(n)]
    O['ret'] = rv
    O['exc'] = lib.verif_get_exc()
    return O


def set_restype(case, module):
    from .ll2c import IntTy, FloatTy, VoidTy
    f = module.funcs['@' + case.func]
    rt = f.ret
    if isinstance(rt, FloatTy): case.restype = ctypes.c_float if rt.k == 'float' else ctypes.c_double
    elif isinstance(rt, IntTy): case.restype = ctypes.c_uint8 if rt.n <= 8 else ctypes.c_int32 if rt.n <= 32 else ctypes.c_int64
    else: case.restype = None
    case.ret_is_fp = isinstance(rt, FloatTy)


def _norm_ret(case, rv):
    if rv is None: return None
    if getattr(case, 'ret_is_fp', False):
        return Rat(Fraction(rv)) if not isinstance(rv, Rat) else rv
    return rv


def _claims(case, I, O, X):
    cl = case.claim(I, O, X)
    if not isinstance(cl, list): cl = [('claim', cl)]
    return cl


def run_case(case, module, real_so):
    """the SymOb body: prove the claim on every path; replay any counterexample natively"""
    t0 = time.time()
    lib = ctypes.CDLL(real_so)
    set_restype(case, module)
    sym = Sym(module, timeout_ms=case.path_timeout_ms, max_paths=case.max_paths)
    sym.deadline = t0 + case.budget
    if case.setup: case.setup(sym)
    st, I, argv, bufs = _build_state(case)
    if case.pre: st.pc += [c for c in case.pre(I) if c is not True]
    npre = len(st.pc)
    sub = []; verdict = 'holds'; model_out = None; npaths = 0; q = 0; witness = False; witness_unknown = False; detail = ''
    try:
        for fs, rv in sym.run(case.func, argv, st):
            npaths += 1
            if os.environ.get('VERIF_TRACE'): sys.stderr.write('[trace %s] path %d at %.1fs pc=%d exc=%s rv=%s queries=%d\n' % (case.name, npaths, time.time() - t0, len(fs.pc), fs.exc, str(rv)[:40], sym.queries))
            O = _outputs(case, fs, rv, bufs)
            X = Ctx(sym, fs)
            if fs.exc == 'DIVZERO':
                if getattr(case, 'allow_divzero', False): continue
                cls = [('no floating-point division by zero for inputs satisfying the precondition', False)]
            else:
                cls = _claims(case, I, O, X)
            sym.instantiate_trig_axioms()
            if not witness:
                q += 1
                wr = S.check_sat(list(fs.pc) + list(sym.axioms), 15000)[0]
                if wr == z3.sat: witness = True
                elif wr != z3.unsat: witness_unknown = True
            for label, f in cls:
                if isinstance(f, tuple) and f and f[0] == 'anyof':
                    # alternatives ordered from strongest to weakest (last one is the actual claim): any proved one suffices
                    for alt in f[1:]:
                        r, m, dt = solve(fs.pc + X.extra, alt, sym.axioms, case.timeout_ms, npre=npre); q += 1
                        if r == 'unsat': break
                else:
                    r, m, dt = solve(fs.pc + X.extra, f, sym.axioms, case.timeout_ms, npre=npre); q += 1
                if os.environ.get('VERIF_TRACE'): sys.stderr.write('[trace %s]   claim %r -> %s %.1fs\n' % (case.name, label[:50], r, dt))
                if r == 'unsat': continue
                if r == 'unknown':
                    # the full path condition was not decided: models of the relaxed queries are candidate inputs; one that violates
                    # the claim on the natively built real code is a genuine counterexample whichever path it takes
                    hit = None
                    for _, cm in sorted(S.solve.candidates, key=lambda x: -x[0])[:3]:
                        try:
                            cin = {}
                            for nm, n in input_names(case):
                                cin[nm] = [model_value(cm, z3.Real('%s_%d' % (nm, i) if n > 1 or any(isinstance(a, In) and (a.name == nm or a.name + '_p' == nm) for a in case.args) else nm)) for i in range(n)]
                            cfree = {k: model_value(cm, v) for k, v in X.freevars.items()}
                            conf, info = replay(case, lib, cin, cfree, label)
                        except Exception:
                            continue
                        if conf:
                            hit = {'path': npaths, 'claim': label, 'verdict': 'violated', 's': round(dt, 2), 'inputs': {k: [float(x) for x in v] for k, v in cin.items()},
                                   'free': {k: float(v) for k, v in cfree.items()}, 'native': info, 'from': 'model of a relaxed query (premise subset), confirmed natively'}
                            break
                    if hit:
                        sub.append(hit); verdict = 'violated'; model_out = hit; continue
                    if verdict == 'holds': verdict = 'unknown'
                    sub.append({'path': npaths, 'claim': label, 'verdict': 'unknown', 's': round(dt, 2)}); continue
                # sat: candidate counterexample -> native replay
                inputs = {}
                for nm, n in input_names(case):
                    inputs[nm] = [model_value(m, z3.Real('%s_%d' % (nm, i) if n > 1 or any(isinstance(a, In) and (a.name == nm or a.name + '_p' == nm) for a in case.args) else nm)) for i in range(n)]
                free = {k: model_value(m, v) for k, v in X.freevars.items()}
                conf, info = replay(case, lib, inputs, free, label)
                ent = {'path': npaths, 'claim': label, 'verdict': 'violated' if conf else 'unconfirmed', 's': round(dt, 2),
                       'inputs': {k: [float(x) for x in v] for k, v in inputs.items()}, 'free': {k: float(v) for k, v in free.items()}, 'native': info}
                sub.append(ent)
                if conf:
                    verdict = 'violated'; model_out = ent
                elif verdict in ('holds', 'unknown'):
                    verdict = 'unconfirmed'; model_out = model_out or ent
            if verdict == 'violated' and len([x for x in sub if x['verdict'] == 'violated']) >= 3: break
    except S.PathLimit as e:
        if verdict == 'holds': verdict = 'unknown'
        detail = str(e)
    except Unsupported as e:
        return {'verdict': 'error', 'detail': 'not encodable: %s' % e, 'paths': npaths, 'queries': q + sym.queries}
    if verdict == 'holds' and not witness:
        if witness_unknown:
            verdict = 'unknown'; detail = 'reachability witness undecided: no path condition was shown satisfiable within 15 s (none shown unsatisfiable either)'
        else:
            verdict = 'error'; detail = 'VACUOUS: every path condition is unsatisfiable'
    return {'verdict': verdict, 'paths': npaths, 'queries': q + sym.queries, 'subresults': sub[:12], 'model': model_out, 'detail': detail,
            'functions': sorted(sym.funcs_run), 'axioms': [str(a)[:200] for a in sym.axioms[:40]], 'trig_instances': sym.trig_instances[:40], 'witness': 'reachable' if witness else 'none',
            'confirmed': verdict == 'violated', 'time': round(time.time() - t0, 2)}


def replay(case, lib, inputs, free, label):
    """evaluate the claim on the natively compiled real code at the model's inputs (rounded to the element type)"""
    try:
        O = run_native(lib, case, inputs)
        rv0 = O['ret']
        if getattr(case, 'ret_is_fp', False) and isinstance(rv0, float) and (rv0 != rv0 or rv0 in (float('inf'), float('-inf'))):
            # the real code returned NaN/inf: that is what a reachable division by zero looks like natively; for other claims it is not evaluable
            if label.startswith('no floating-point division by zero'):
                return True, {'outputs': {'ret': str(rv0)}, 'note': 'non-finite return value from the real code', 'label': label}
            return False, {'outputs': {'ret': str(rv0)}, 'note': 'non-finite return value (native overflow): claim not evaluable', 'label': label}
        O['ret'] = _norm_ret(case, O['ret'])
        I = {}
        for a in case.args:
            if isinstance(a, In) and a.param:
                cty_ = ctypes.c_float if case.T == 'f' else ctypes.c_double
                I[a.name + '_p'] = [Rat(Fraction(x)) for x in inputs[a.name + '_p']]
                I[a.name] = [Rat(Fraction(cty_(float(v.frac())).value)) for v in map(R, a.param[1](I[a.name + '_p']))]
            elif isinstance(a, In): I[a.name] = [Rat(Fraction(a.fixed[i])) if i in a.fixed else Rat(Fraction(float(x))) for i, x in enumerate(inputs[a.name])]
            elif isinstance(a, Val): I[a.name] = Rat(Fraction(float(inputs[a.name][0])))
            elif isinstance(a, Raw):
                for off, kind, spec in a.fields:
                    if kind == 'r': I[spec] = Rat(Fraction(float(inputs[spec][0])))
                    elif kind == 'c': I[spec[0]] = Rat(Fraction(spec[1]))
        if case.pre:
            # the inputs actually passed to the real code (rounded to the element type) must satisfy the stated precondition
            S.TOL[0] = Fraction(1, 10 ** 9) if case.T == 'd' else Fraction(1, 10 ** 4)     # equalities (unit length ...) hold to rounding only
            try: pre_ok = all((c is True) or (c is not False and not z3.is_false(z3.simplify(c))) for c in case.pre(I) if not isinstance(c, bool) or c is False)
            except Exception: pre_ok = True
            finally: S.TOL[0] = Fraction(0)
            if not pre_ok: return False, {'outputs': 'rounded inputs violate the precondition', 'label': label}
        if any(v is None for k, vs in O.items() if isinstance(vs, list) for v in vs):
            # inf/NaN from the real code confirms a reachable division by zero; for any other claim it only means the double/float
            # run overflowed where the exact-real model does not, which confirms nothing
            if label.startswith('no floating-point division by zero'):
                return True, {'outputs': 'non-finite output from the real code', 'label': label}
            return False, {'outputs': 'non-finite output from the real code (overflow in the native run): claim not evaluable', 'label': label}
        X = Ctx(None, None, model=free, conc=True); X.lib = lib; X.T = case.T
        S.TOL[0] = Fraction(1, 10 ** 9) if case.T == 'd' else Fraction(1, 10 ** 4)
        try:
            cls = _claims(case, I, O, X)
            side = all(c is True or c is not False for c in X.extra)
            bad = [l for l, f in cls if (f[-1] if isinstance(f, tuple) and f and f[0] == 'anyof' else f) is False]
        finally:
            S.TOL[0] = Fraction(0)
        outs = {k: [float(v.frac()) for v in vs] for k, vs in O.items() if isinstance(vs, list)}
        outs['ret'] = float(O['ret'].frac()) if isinstance(O['ret'], Rat) else O['ret']; outs['exc'] = O['exc']
        return (label in bad and side), {'outputs': outs, 'failed_claims': bad}
    except Exception:
        return False, {'error': traceback.format_exc()[-600:]}


def validate_case(case, module, real_so, rng, n=None):
    """engine-C validation: run the executor concretely on random dyadic inputs and compare with the native build.
    returns number of vectors compared; raises ToolFailure on disagreement"""
    lib = ctypes.CDLL(real_so)
    set_restype(case, module)
    done = 0; tries = 0
    n = case.nvalid if n is None else n
    while done < n and tries < 40 * max(n, 1):
        tries += 1
        inputs = {}
        for nm, k in input_names(case):
            inputs[nm] = [Fraction(rng.randint(-32, 32), 8) for _ in range(k)]
        if case.sample: inputs = case.sample(rng, inputs)
        sym = Sym(module); sym.deadline = time.time() + 20; sym.approx_sqrt = True   # concrete validation run: irrational roots as doubles
        if case.setup: case.setup(sym)
        st, I, argv, bufs = _build_state(case, inputs)
        if case.pre:
            S.TOL[0] = Fraction(0)
            if not all(c is True for c in case.pre(I)): continue
        try:
            paths = list(sym.run(case.func, argv, st))
        except (Unsupported, S.PathLimit, ZeroDivisionError):
            continue
        paths = [p_ for p_ in paths if p_[0].exc != 'DIVZERO']
        if len(paths) != 1: continue
        fs, rv = paths[0]
        O = _outputs(case, fs, rv, bufs)
        N = run_native(lib, case, inputs)
        tol = 1e-9 if case.T == 'd' else 2e-4
        def close(a, b):
            return abs(a - b) <= tol * (1 + abs(a) + abs(b))
        if O['exc'] != N['exc']:
            raise ToolFailure('engine C validation: %s exception %s vs native %s at %r' % (case.func, O['exc'], N['exc'], inputs))
        if O['exc'] == 0:
            for name, k in bufs:
                for i in range(k):
                    a = O[name][i]; b = N[name][i]
                    if a is None or b is None or not a.conc(): continue
                    if not close(float(a.frac()), float(b.frac())):
                        raise ToolFailure('engine C validation: %s output %s[%d] = %r (irsym) vs %r (native) at %r' % (case.func, name, i, float(a.frac()), float(b.frac()), {k: [float(x) for x in v] for k, v in inputs.items()}))
            if isinstance(O['ret'], Rat) and O['ret'].conc() and N['ret'] is not None and getattr(case, 'ret_is_fp', False):
                if not close(float(O['ret'].frac()), float(N['ret'])):
                    raise ToolFailure('engine C validation: %s return %r vs native %r' % (case.func, float(O['ret'].frac()), N['ret']))
            elif isinstance(O['ret'], int) and N['ret'] is not None and not getattr(case, 'ret_is_fp', False):
                if (O['ret'] & 0xff) != (N['ret'] & 0xff) and case.restype is not None:
                    raise ToolFailure('engine C validation: %s return %r vs native %r at %r' % (case.func, O['ret'], N['ret'], inputs))
        done += 1
    return done
