"""Data layout of LLVM types under the x86-64 datalayout (used by irsym and by translator validation)."""
from .ll2c import IntTy, FloatTy, PtrTy, ArrTy, StructTy, NamedTy, VoidTy, FnTy, OpaqueTy, Unsupported


class Layout:
    def __init__(s, module): s.m = module
    def res(s, t):
        while isinstance(t, NamedTy): t = s.m.types[t.name]
        return t
    def sizeof(s, t):
        t = s.res(t)
        if isinstance(t, IntTy): return max(1, 1 << max(0, (t.n - 1).bit_length() - 3)) if t.n > 8 else 1
        if isinstance(t, FloatTy): return {'float': 4, 'double': 8, 'half': 2}.get(t.k) or _unsup('fp ' + t.k)
        if isinstance(t, PtrTy): return 8
        if isinstance(t, ArrTy): return t.n * s.sizeof(t.el)
        if isinstance(t, StructTy):
            off = 0; al = 1
            for f in t.fields:
                a = 1 if t.packed else s.align(f); al = max(al, a); off = (off + a - 1) // a * a + s.sizeof(f)
            return (off + al - 1) // al * al
        raise Unsupported('sizeof %r' % (t,))
    def align(s, t):
        t = s.res(t)
        if isinstance(t, (IntTy, FloatTy, PtrTy)): return min(s.sizeof(t), 16)
        if isinstance(t, ArrTy): return s.align(t.el)
        if isinstance(t, StructTy): return 1 if t.packed else max([s.align(f) for f in t.fields] or [1])
        raise Unsupported('align %r' % (t,))
    def fieldoff(s, t, i):
        off = 0
        for k, f in enumerate(t.fields):
            a = 1 if t.packed else s.align(f); off = (off + a - 1) // a * a
            if k == i: return off
            off += s.sizeof(f)
        raise Unsupported('field index')
    def flatten(s, t, base=0):
        """[(offset, kind, size)] of scalar leaves; kind in i,f,p,h (h = Imath half: 16-bit float pattern)"""
        if isinstance(t, NamedTy) and t.name.rstrip('"').endswith('::half'): return [(base, 'h', 2)]
        t = s.res(t)
        if isinstance(t, IntTy): return [(base, 'i', s.sizeof(t))]
        if isinstance(t, FloatTy): return [(base, 'f', s.sizeof(t))]
        if isinstance(t, PtrTy): return [(base, 'p', 8)]
        if isinstance(t, ArrTy):
            out = []; es = s.sizeof(t.el)
            for k in range(t.n): out += s.flatten(t.el, base + k * es)
            return out
        if isinstance(t, StructTy):
            out = []
            for k, f in enumerate(t.fields): out += s.flatten(f, base + s.fieldoff(t, k))
            return out
        raise Unsupported('flatten %r' % (t,))

def _unsup(m): raise Unsupported(m)
