"""Convenience layer for engine-C properties: one wrapper TU -> IR -> symbolic cases."""
import os, random, time
from .common import *
from .runner import SymOb
from . import build as B, symcase


class EngC:
    def __init__(s, chk, name, extra=(), defines=(), std='c++17', keep_calls=()):
        s.chk = chk
        s.u = B.Unit(chk.wd, name, extra=[e if os.path.isabs(e) else os.path.join(SRC, e) for e in extra], defines=defines, std=std, keep_calls=keep_calls)
        s.m = s.u.parsed()
        s.real = s.u.real_so('g++')
        s.rng = random.Random(chk.seed)
        s.validated = 0

    def add(s, case, prefix=''):
        if case.tier == 'thorough' and s.chk.tier != 'thorough': return
        if '@' + case.func not in s.m.funcs:
            raise ToolFailure('wrapper %s not found in the IR' % case.func)
        t0 = time.time()
        n = symcase.validate_case(case, s.m, s.real, s.rng)
        s.chk.validation['seconds'] = round(s.chk.validation.get('seconds', 0) + time.time() - t0, 2)
        s.chk.validation['vectors'] += n; s.chk.validation['functions'] += 1 if n else 0
        if n == 0: s.chk.validation.setdefault('not_validated', []).append(case.name)
        m = s.m; real = s.real
        ob = SymOb(prefix + case.name, lambda: symcase.run_case(case, m, real), timeout=case.budget + 30, desc=case.desc, tier=case.tier, core=case.core, bounds=case.bounds)
        ob.mode = 'reals (%s IR)' % ('double' if case.T == 'd' else 'float')
        s.chk.add(ob)
        s.chk.functions.setdefault(case.func, 'engine C')
