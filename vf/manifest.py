#!/usr/bin/env python3
"""Regenerates /verif/MANIFEST.json from the table below (python3 vf/manifest.py)."""
import json, os
V = os.path.dirname(os.path.dirname(os.path.abspath(__file__)))

TITLES = {l['id']: l['title'] for l in map(json.loads, open(os.path.join(V, 'properties.jsonl')))}

# property -> (engine, technique, level text, level note, design ref)
CLAIMED = {
    'C01': ('cbmc-c+ir2c', 'bounded model checking (CBMC/SAT) of half.h compiled as C and of the clang IR of the C++ spellings, over all 2^32 / 2^16 bit patterns',
            'Every obligation is a solver verdict over ALL bit patterns of the input type (no sampling): float->half against a value-based RNE reference and against CBMC\'s native binary16 type; half->float for the bit-shift build and (sliced) for every entry of the shipped table; round trips; the C++ constructor/cast via IR->C translation. Exhaustive by solver, loop-free code, so the bound is only the type width.',
            'Trusted: CBMC C front end + SAT back ends, clang-14 -O1 for the C++ spellings, vf/ll2c.py (validated every run against the native build), the reference oracle in harness/c01/half_c.c. F16C hardware path is outside (see C02).', '3/C01'),
}
CLAIMED['C03'] = ('ir2c', 'bounded model checking (CBMC/SAT) of the clang IR of class half translated to C, all operand bit patterns; conversions abstracted as uninterpreted pure callees for the arithmetic obligations',
    'Solver verdicts over all 2^16 patterns (classification, limits, unary minus, round(n) for every n) and all 2^32 / 2^48 operand pairs (compound arithmetic == f2h(h2f(a) op rhs), compositional with C01). Text round trip and the halfFunction fill loop are stated as not decided.',
    'Trusted: clang-14 -O1, vf/ll2c.py (validated each run against g++ and clang++ builds of the real code), CBMC. Arithmetic obligations treat the two conversion functions (and, for * and /, the float operation) as uninterpreted functions on both sides.', '3/C03')
CLAIMED['C02'] = ('cbmc-c+ir2c', 'bounded model checking (CBMC/SAT,SMT): miters between build configurations of half.h (C, C++14/17/20 IR, table, bit-shift, F16C-with-SDM-model) and the table generator, all 2^32 / 2^16 inputs',
    'Each configuration pair is one solver query (or 64 slices for the 65,536-entry shipped table) over every input bit pattern: table==bit-shift (via a common reference), generator toFloat.cpp::halfToFloat == bit-shift (loop unwound with unwinding assertion), C front end vs clang IR per language standard, table builds return entry h of an arbitrary installed table, F16C wiring under an SDM model of the two instructions.',
    'Trusted: CBMC, clang-14, vf/ll2c.py (validated each run), the SDM model of VCVTPH2PS/VCVTPS2PH in stubs/f16c. Real F16C silicon, MSVC/CUDA branches and the iostream printing of the generator (aux diff only) are outside.', '3/C02')
CLAIMED['C18'] = ('ir2c', 'bounded model checking (CBMC with cvc5 bit-vectors-as-integers / kissat / z3) of the clang IR of ImathRandom.cpp and ImathRandom.h translated to C, from every generator state',
    'nrand48/erand48/lrand48/drand48/srand48 against the POSIX formula from EVERY 48-bit state / 64-bit seed (one solver query each, no sampling); Rand32/Rand48 draws are pure functions of the state with the documented ranges for every state; sphere samplers: partial correctness of one rejection iteration from an arbitrary state. Sequences are covered by the one-step-from-arbitrary-state form.',
    'Trusted: clang-14, vf/ll2c.py (validated each run), CBMC + cvc5 --solve-bv-as-int=sum for the multiply-by-constant kernels. POSIX reference is the formula of the standard written in the harness. gaussRand finiteness, hollow-sphere unit length and loop termination are outside.', '3/C18')
ENGC_NOTE = 'Trusted: clang-14 -O1, vf/irsym.py (validated every run: the executor is run concretely on random dyadic inputs and compared with the g++ build of the real code), z3 nlsat. Statements are about the exact-real semantics of the compiled expression DAG and branch structure; rounding, NaN and overflow are outside (DESIGN 2.4). Counterexamples are replayed on the native double/float build before being reported.'
CLAIMED['C05'] = ('irsym', 'bounded symbolic execution of the clang IR with floats as exact reals; z3 nonlinear real arithmetic proves each output entry equal to the textbook polynomial on every path',
    'Every product/transposition/minor/determinant spelling (float and double IR) is proved equal to its algebraic definition for ALL real operands, one solver query per output entry and path, including the zero-skipping branches of Matrix44::determinant, all 16 minorOf / 25 fastMinor index combinations and the cofactor-expansion and multiplicativity identities through the real code.',
    ENGC_NOTE, '3/C05')
CLAIMED['C06'] = ('irsym', 'bounded symbolic execution of the clang IR over the exact reals; z3 nlsat proves M*X == I and X*M == I (cross-multiplied) or the documented singular outcome on every path',
    'For inverse()/gjInverse() of Matrix22/33/44 (affine fast path pinned, general 3x3, Gauss-Jordan 3x3; general 4x4 in the thorough tier) every execution path returns a two-sided inverse, or exactly the identity together with the documented reason (|det| <= min*|cofactor|, resp. det == 0 on a zero pivot); exactly singular input returns the identity / throws invalid_argument.',
    ENGC_NOTE, '3/C06')
CLAIMED['C09'] = ('irsym', 'bounded symbolic execution of the clang IR over the exact reals; z3 nlsat; sin/cos as constrained pairs',
    'Every set* builder is proved to act on an arbitrary point as documented; translate/scale/shear (all overloads) and Matrix44::rotate are proved equal to the set* matrix times a FULLY GENERAL current matrix (all entries free), Matrix22/33::rotate to right multiplication; setEulerAngles/setAxisAngle are proved orthonormal with determinant +1, axis-fixing and equal to the Rodrigues formula for every non-zero axis.',
    ENGC_NOTE + ' Frame builders (alignZAxisWithTargetDir etc.) are thorough-tier and budgeted; firstFrame/nextFrame/lastFrame are not attempted.', '3/C09')
CLAIMED['C14'] = ('irsym', 'bounded symbolic execution of the clang IR over the exact reals, one case per sign pattern of the direction; existential geometric facts are discharged as z3 queries with a free ray parameter',
    'For every box (also empty/flat), origin and direction in the stated range: a miss is proved to mean that NO t>=0 (resp. no real t) puts the point in the closed box (fresh universally quantified t, no second slab implementation as oracle), a hit that ip/entry/exit lie in the box, on the ray, at the origin if inside else at the first contact on the surface, ordered and extreme - on every one of the ~350 paths per sign pattern.',
    ENGC_NOTE + ' IEEE overflow of the guarded divisions is outside this engine.', '3/C14')
CLAIMED['C15'] = ('irsym', 'bounded symbolic execution of the clang IR over the exact reals (Vec::length() replaced by its separately proved contract); z3 SMT-core nonlinear arithmetic + nlsat portfolio',
    'Line3 (set, closestPointTo/distanceTo point and line, closestPoints), Plane3 (three constructors, distanceTo, reflectPoint/Vector incl. involution, intersect/intersectT, negation), Sphere3::circumscribe, project/orthogonal/reflect/closestVertex are proved to satisfy their defining geometric equations for all real inputs in a 2^20 box on every path, including the guarded nearly-parallel branches. Sphere3::intersectT, closestVertex(line), rotatePoint and the triangle test are attempted but budgeted (reported undecided when nlsat does not finish).',
    ENGC_NOTE + ' Compositional: callers of Vec3::length() are verified against its contract (l >= 0, l*l == sum of squares), which C08 decides for the real body.', '3/C15')
CLAIMED['C16'] = ('irsym', 'bounded symbolic execution of the clang IR over the exact reals; Frustum objects built as symbolic memory state; z3 SMT-core/nlsat portfolio',
    'For every non-degenerate perspective and orthographic frustum in the stated range: projectionMatrix maps the eight corners to the cube corners; projectPointToScreen equals the x,y of point*projectionMatrix; every point of projectScreenToRay(s) projects back to s; normalizedZToDepth agrees with the matrix depth; worldRadius inverts screenRadius; aspect; planes() returns six unit outward normals in the documented order, each through its own four corners with all corners on the non-positive side. FrustumTest::isVisible(point) is thorough-tier and budgeted.',
    ENGC_NOTE + ' ZToDepth/DepthToZ (integer casts), fov functions, planes(M) and box/sphere culling are not decided.', '3/C16')
CLAIMED['C13'] = ('ir2c+irsym', 'bounded model checking (CBMC) of the clang IR of Box/Interval translated to C over all bit patterns, one inductive extendBy step from an arbitrary valid box; engine C (exact reals, z3) for nearest-point and tight-transform claims',
    'Box<Vec2/3/4> of int, short, float (generic template and specialisations) and Interval: membership, emptiness, infinity, symmetric intersects(box) tied to a shared witness point, one inductive extendBy(point/box) step from ANY reachable box (so histories of any length), size/center/majorAxis, specialisation == generic output-for-output - all by solver over every bit pattern (floats: all finite values). clip/closestPointInBox/closestPointOnBox nearest-point claims with a universally quantified competitor, and transform/affineTransform (4 overloads): exact tight bound of the eight corner images for affine matrices, empty->empty, infinite->infinite.',
    'Trusted: clang-14, vf/ll2c.py and vf/irsym.py (validated each run), CBMC, z3. extendBy histories rely on the stated representation invariant (canonical empty or min<=max), which each step is proved to re-establish. Projective transforms beyond empty/infinite handling and rounding in the Arvo accumulation are outside.', '3/C13')
CLAIMED['C17'] = ('ir2c+irsym', 'bounded model checking (CBMC: kissat/cadical/minisat/z3) of the clang IR of ImathFun/ImathMath/ImathRoots/ImathColorAlgo translated to C; engine C (exact reals) for root and lerpfactor identities',
    'floor/ceil/trunc for EVERY float below 2^31; finitef/finited and succ/pred dispatch for all bit patterns; abs/sign/cmp/cmpt/iszero/equal/clamp/equalWith*Error on int and float against their definitions; lerp/ulerp formulas; divs/mods/divp/modp with overflow assertions for |x|,|y| <= 2^8 (2^12 thorough); packed-colour round trip for all 2^32 colours; Vec3 vs Color4 hsv/rgb copies incl. alpha; solver delegation; solveLinear/solveQuadratic root counts and roots, lerp(lerpfactor) identity over the reals.',
    'Trusted: clang-14, vf/ll2c.py, vf/irsym.py (validated each run), CBMC, z3. Structural obligations treat + - * / sqrt as uninterpreted (commutativity of + and * built in). nextafter is glibc (uninterpreted). Full 32-bit div/mod, cubic solver, hsv round trip and root accuracy are outside.', '3/C17')
CLAIMED['C08'] = ('ir2c+irsym', 'CBMC on the clang IR translated to C (IEEE floats bit-blasted with a correctly rounded sqrtf; uninterpreted FP operations for the structural skeleton) and engine C (exact reals) on the real body of length()',
    'length()==0 exactly for the zero vector and finite/non-negative otherwise for all finite components up to 2^62 (squares that underflow included) on real IEEE semantics; length2()==dot bit for bit; every member of the normalize family divides each component by one shared length() (division, not reciprocal), with the documented zero-vector behaviour and domain_error; over the reals, on EVERY path of the real body (sqrt branch and the lengthTiny scaling branch) length() is the non-negative l with l^2 == sum of squares, and the normalised vector is v/|v| with unit length.',
    'Trusted: clang-14, vf/ll2c.py, vf/irsym.py (validated each run), CBMC sqrtf model, z3. "Within a few ulps" and the direct IEEE no-NaN/inf proof of normalize are outside (stated lemma in DESIGN).', '3/C08')
CLAIMED['C07'] = ('ir2c', 'CBMC (z3 / kissat) equivalence checking of the two textual copies of each checked/unchecked pair in the clang IR translated to C, FP arithmetic abstracted identically on both sides as uninterpreted functions',
    'For every input bit pattern: the normalize family (Vec2/3/4), Vec3(Vec4[,InfException]), inverse()/inverse(bool)/invert for Matrix22/33 (44 and Gauss-Jordan pairs in the thorough tier), in-place vs value-returning inversion, and six Frustum ...Exc methods: whenever the checked form returns its output equals the unchecked form bit for bit, singExc=false never throws, the thrown type is the documented one, and inverse(true) throws only where the unchecked form returns the identity.',
    'Trusted: clang-14, vf/ll2c.py (validated each run), CBMC, z3/kissat. Abstraction: + - * / sqrt are uninterpreted (commutative where IEEE is) on BOTH sides, comparisons/abs/guards are exact - decides "same operations under the same guards", not rounding. Guard tightness (factor four of max) and decomposition exc flags are outside.', '3/C07')
CLAIMED['C11'] = ('irsym+ir2c', 'engine C (exact reals, sin/cos pairs, mechanically instantiated parity/double-angle axioms, z3) per Euler order; CBMC for the order and slot-permutation bookkeeping',
    'For each of the 24 orders and ALL angle triples: toMatrix33 and toMatrix44 are orthonormal with determinant +1 and hold the same rotation, toQuat() represents that rotation (via toMatrix33 of the quaternion), XYZ equals Matrix44::setEulerAngles == Rx Ry Rz; order()/setOrder round trip for the 24 enumerators and setXYZVector/toXYZVector/XYZ-layout constructor are mutually inverse permutations for every bit pattern.',
    ENGC_NOTE + ' extract()/re-ordering round trips, angleMod/makeNear/nearestRotation are not decided.', '3/C11')
CLAIMED['C10'] = ('irsym', 'engine C: bounded symbolic execution of the clang IR over the exact reals, unit-quaternion constraint r^2+|v|^2=1, sqrt witnesses, sin/cos pairs with mechanically instantiated half-angle identities; z3',
    'For ALL unit quaternions and vectors: toMatrix33/toMatrix44 hold the documented orthonormal det +1 rotation, rotateVector(v) == v*q == v*toMatrix33(), toMatrix33(q1*q2) == toMatrix33(q2)*toMatrix33(q1), q*inverse(q) == 1, inverse/invert/conjugate/normalize(d) formulas, Quat::setAxisAngle builds the same Rodrigues rotation as Matrix44::setAxisAngle for every non-zero axis, extractQuat(q.toMatrix44()) is +-q on every branch (budgeted), setRotation(from,to) in the thorough tier.',
    ENGC_NOTE + ' slerp/squad/spline, exp/log and angle()/axis() are not decided.', '3/C10')
CLAIMED['C19'] = ('ir2c', 'bounded model checking (CBMC) of the clang IR of PyImath::FixedArray<int> (compiled against the real Python.h / boost.python headers) translated to C, array objects built as arbitrary valid struct state; counterexamples replayed through an embedded-CPython driver on the real headers',
    'From EVERY valid FixedArray<int> state up to the bound (length 0..3, stride 1..2, writable or not, direct or masked with arbitrary increasing mask indices, arbitrary contents; 4 in the thorough tier): integer indexing incl. negative and out-of-range indices, slice assignment against CPython\'s own PySlice_AdjustIndices semantics, array and mask assignment with length checks, every writer entry point on a read-only array (operator[], direct_index, setitem_*, Writable{Direct,Masked}Access) raises and leaves the data unchanged, accessor classes, match_dimension, makeReadOnly; every memory access is inside the exactly-sized backing store (CBMC bounds and pointer checks).',
    'Trusted: clang-14, vf/ll2c.py, CBMC. CPython/boost externals are stubs listed in the evidence (PySlice_AdjustIndices is a transcription of CPython\'s algorithm). No translator validation for this TU (pointer-rich objects); instead every counterexample is replayed natively with real Python objects. View lifetimes, StringTable, FixedVArray/2D/Matrix, getslice allocation and the buffer protocol are not decided.', '3/C19')
CLAIMED['C20'] = ('ir2c', 'bounded model checking (CBMC) of the clang IR of the real PyImath task classes (built by the wrapper as VectorizedFunctionN::apply builds them) translated to C: one execute(start,end) call with symbolic sub-range from arbitrary valid array states',
    'For each generic task template (VectorizedOperation1/2/3, VectorizedVoidOperation0/1/2, VectorizedMaskedVoidOperation1) in 26 accessor-kind combinations (direct / masked / scalar) and for the hand-written Box IntersectsTask: for EVERY sub-range [start,end) of [0,L), L <= 2 (4 thorough), result[i] == op(args[i]) exactly on the sub-range, every other element of the result store, the guard zones and all argument arrays untouched; tasks cannot be built on read-only or wrong-kind arrays; mismatched argument lengths raise before any access. Partition / order / concurrency independence follows by the stated pen-and-paper step (disjoint write frames, read-only arguments).',
    'Trusted: clang-14, vf/ll2c.py, CBMC. Counterexamples are replayed natively against the g++-built real task classes. dispatchTask/WorkerPool (virtual dispatch), the binding glue, GIL and real threads, floating-point hand-written tasks and other element types are not decided.', '3/C20')
CLAIMED['C04'] = ('ir2c', 'bounded model checking (CBMC: minisat/kissat/z3/cvc5) of generated wrappers over the clang IR translated to C: one obligation per (aggregate type, element type, operator spelling); libstdc++ stream primitives stubbed as event recorders for operator<<',
    'About 320 obligations generated from a table (Vec2/3/4, Color3/4, Shear6, Quat, Matrix22/33/44 x float,int,short,unsigned char in the quick tier; double,int64 in the thorough tier): every output component of every operator spelling (binary, compound, unary minus, negate(), scalar on either side, component-wise * and /) equals the scalar operation on the corresponding components for ALL operand bit patterns; ==/!= and equalWithAbs/RelError depend on every component; operator[] / m[i][j] / getValue address one contiguous block of exactly N elements in declaration order, row-major; operator<< emits exactly one number per component in order inside one pair of parentheses, whitespace-separated, matrices one row per line, for arbitrary stream state.',
    'Trusted: clang-14, vf/ll2c.py (validated each run against g++ and clang++ builds), CBMC/z3. FP arithmetic is uninterpreted on both sides (commutative + and *) for the arithmetic obligations; integer arithmetic wraps; number rendering by libstdc++ is outside; half-element aggregates, converting and interop constructors are not yet covered.', '3/C04')
NOT_YET = 'check not built yet in this working session (planned in DESIGN.md section 3); no claim is made'
NA = {}

def main():
    checks = []
    for pid, (eng, tech, text, note, ref) in sorted(CLAIMED.items()):
        checks.append({
            'property_id': pid,
            'quick_cmd': './check %s --tier quick' % pid,
            'thorough_cmd': './check %s --tier thorough' % pid,
            'evidence_file': 'evidence/%s.json' % pid,
            'replay_cmd_template': './check %s --replay {path}' % pid,
            'engine': eng,
            'level_claimed': {'category': 'model_checking', 'text': text, 'design_ref': 'DESIGN.md section ' + ref},
            'level_note': note,
            'technique': tech,
        })
    na = []
    for pid in sorted(TITLES):
        if pid not in CLAIMED:
            na.append({'property_id': pid, 'reason': NA.get(pid, NOT_YET)})
    man = {
        'version': 1,
        'setup_cmd': 'python3-vt -m compileall -q vf props && cbmc --version && goto-cc --version >/dev/null && clang++-14 --version >/dev/null && python3-vt -c "import z3"',
        'hooks': {'guard': 'IMATH_VERIF', 'enable': 'no source hooks are used: wrappers in /verif/wrappers include the real headers and .cpp units of /repo; -DIMATH_VERIF is reserved and unused',
                  'baseline_off_cmd': 'cmake -G Ninja -S /repo -B /repo/_build && cmake --build /repo/_build -j16 && ctest --test-dir /repo/_build -j8 --timeout 900',
                  'source_commits': [], 'add_only': True},
        'engines': [
            {'name': 'cbmc-c', 'path': 'harness/c01/half_c.c + vf/cbmc.py', 'serves_properties': ['C01', 'C02'], 'kind_free_text': 'CBMC on half.h compiled as C'},
            {'name': 'ir2c', 'path': 'vf/ll2c.py + vf/build.py + vf/cbmc.py', 'serves_properties': sorted(CLAIMED), 'kind_free_text': 'clang++-14 -O1 LLVM IR of wrapper TUs (real headers / real .cpp) -> own IR->C translator -> CBMC (minisat/cadical/kissat/z3/cvc5)'},
            {'name': 'irsym', 'path': 'vf/irsym.py + vf/symcase.py', 'serves_properties': ['C05', 'C06', 'C09', 'C10', 'C11', 'C13', 'C14', 'C15', 'C16'], 'kind_free_text': 'own symbolic executor over the same LLVM IR, floats as exact reals, z3 nlsat'},
        ],
        'checks': checks,
        'not_applicable': na,
        'notes': 'All checks rebuild from /repo\'s working tree (cmake configure-only for ImathConfig.h, clang/goto-cc on the real sources). Exit 0 held / 1 VIOLATION (replayed natively) / 2 tool failure. See DESIGN.md.',
    }
    json.dump(man, open(os.path.join(V, 'MANIFEST.json'), 'w'), indent=1)
    print('MANIFEST.json: %d checks, %d not_applicable' % (len(checks), len(na)))

if __name__ == '__main__':
    main()
