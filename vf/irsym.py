"""Engine C: path-forking symbolic executor over LLVM-14 IR with floating point interpreted over the exact reals.

Values:  Rat(n, d)  real number n/d, n and d z3 Real terms or Fractions (d != 0 on the path)
         int        concrete integer (all integer computation in scope is concrete: loop counters, indices, enums)
         z3 Bool    symbolic i1 (comparison results); forks the path when it reaches a branch / integer select
         Ptr(obj, off)  concrete pointer
The same executor runs concretely when all inputs are Fractions (used to validate it against the native build).
sqrt(x) -> fresh y with y >= 0 and y*y == x; sin/cos -> a pair of fresh reals per distinct argument with s^2+c^2 == 1;
further trig facts are added by the obligations as listed axioms.  Nothing here models rounding, NaN or overflow."""
import os, sys, re, struct, time, math
from fractions import Fraction
import z3
from .ll2c import (parse_module, P, IntTy, FloatTy, PtrTy, ArrTy, StructTy, NamedTy, VoidTy, FnTy, Unsupported,
                   FLAGS, FASTMATH, FN_KW, PARAM_ATTRS, PARAM_ATTRS_ARG, parse_type_nofn_call)
from .layout import Layout


def isconst(x): return isinstance(x, (int, Fraction))


class Rat:
    __slots__ = ('n', 'd')
    def __init__(s, n, d=1):
        if isinstance(n, float): n = Fraction(n)
        s.n = n; s.d = d
    def conc(s): return isconst(s.n) and isconst(s.d)
    def frac(s): return Fraction(s.n) / Fraction(s.d)
    def __repr__(s): return 'Rat(%s/%s)' % (s.n, s.d)


def R(v): return v if isinstance(v, Rat) else Rat(v)
def zabs(t): return abs(t) if isconst(t) else z3.If(t >= 0, t, -t)
def rz(x): return Rat(Fraction(x))
def radd(a, b):
    a = R(a); b = R(b)
    if isconst(a.d) and isconst(b.d) and a.d == b.d: return Rat(a.n + b.n, a.d)
    return Rat(a.n * b.d + b.n * a.d, a.d * b.d)
def rneg(a): a = R(a); return Rat(-a.n, a.d)
def rsub(a, b): return radd(a, rneg(b))
def rmul(a, b): a = R(a); b = R(b); return Rat(a.n * b.n, a.d * b.d)
def rdiv(a, b): a = R(a); b = R(b); return Rat(a.n * b.d, a.d * b.n)
def rsum(xs):
    acc = rz(0)
    for x in xs: acc = radd(acc, x)
    return acc
def rdot(a, b): return rsum(rmul(x, y) for x, y in zip(a, b))

# ---- comparisons, polymorphic: z3 formula when symbolic, python bool (with tolerance TOL) when concrete
TOL = [Fraction(0)]

def _cross(a, b):
    a = R(a); b = R(b)
    if isconst(a.d) and isconst(b.d) and a.d > 0 and b.d > 0: return a.n * b.d, b.n * a.d
    return a.n * a.d * b.d * b.d, b.n * b.d * a.d * a.d
def _slack(a, b): return TOL[0] * (1 + abs(R(a).frac()) + abs(R(b).frac()))
def eq(a, b):
    if R(a).conc() and R(b).conc(): return abs(R(a).frac() - R(b).frac()) <= _slack(a, b)
    a = R(a); b = R(b)
    return a.n * b.d == b.n * a.d
def le(a, b):
    if R(a).conc() and R(b).conc(): return R(a).frac() <= R(b).frac() + _slack(a, b)
    l, r = _cross(a, b); return l <= r
def lt(a, b):
    if R(a).conc() and R(b).conc(): return R(a).frac() < R(b).frac() - _slack(a, b)
    l, r = _cross(a, b); return l < r
def ne(a, b): return NOT(eq(a, b))
def AND(*xs):
    xs = [x for x in _flat(xs)]
    if any(x is False for x in xs): return False
    xs = [x for x in xs if x is not True]
    if not xs: return True
    return z3.And(*xs) if len(xs) > 1 else xs[0]
def OR(*xs):
    xs = [x for x in _flat(xs)]
    if any(x is True for x in xs): return True
    xs = [x for x in xs if x is not False]
    if not xs: return False
    return z3.Or(*xs) if len(xs) > 1 else xs[0]
def NOT(x): return (not x) if isinstance(x, bool) else z3.Not(x)
def IMPLIES(a, b): return OR(NOT(a), b)
def _flat(xs):
    for x in xs:
        if isinstance(x, (list, tuple)):
            for y in _flat(x): yield y
        else: yield x


class Ptr:
    __slots__ = ('obj', 'off')
    def __init__(s, obj, off=0): s.obj = obj; s.off = off
    def __repr__(s): return 'Ptr(%s+%d)' % (s.obj, s.off)


class State:
    def __init__(s):
        s.mem = {}; s.pc = []; s.env = {}; s.exc = None; s.trig = []; s.wit = []   # wit: (radicand, y) sqrt witnesses defined on THIS path
    def clone(s):
        t = State(); t.mem = dict(s.mem); t.pc = list(s.pc); t.env = dict(s.env); t.exc = s.exc; t.trig = list(s.trig); t.wit = list(s.wit); return t


class PathLimit(Exception): pass


class Sym:
    def __init__(s, module, timeout_ms=3000, max_paths=4000):
        s.m = module; s.L = Layout(module); s.fresh = 0; s.npaths = 0; s.timeout = timeout_ms; s.max_paths = max_paths
        s.uf = {}; s.axioms = []; s.queries = 0; s.calls = {}; s.deadline = None
        s.conc_trig = {}     # concrete mode: pinned values
        s.funcs_run = set(); s.check_divzero = True; s.divzero_paths = 0; s.div_as_var = False
        s.contracts = {}    # mangled name -> callable(sym, st, args) -> return value: callee replaced by its (separately proved) contract
        s.contracts_used = set()
        s._bcache = {}; s._trig_done = set(); s.trig_instances = []
        s.witnesses = []    # (Rat radicand, z3 var y) for every sqrt / length() witness introduced: y >= 0, y*y == radicand

    def newreal(s, name):
        s.fresh += 1; return z3.Real('%s_%d' % (name, s.fresh))

    def feasible(s, st, c):
        if isinstance(c, bool): return c
        if not getattr(s, 'prune', True): return True   # no pruning: every syntactic path is followed; an infeasible one only yields a vacuous query
        s.queries += 1
        # cheap attempt first: without the single-variable range bounds (fewer polynomials for nlsat); unsat is sound
        nb = [x for x in st.pc if not s._isbound(x)]
        if len(nb) < len(st.pc):
            cs_ = _check_sat_inproc if len(st.pc) <= 24 else check_sat   # small branch queries in-process (a fork each costs more than they do); long path conditions under the hard deadline
            r, _ = cs_(nb + list(s.axioms) + [c], max(300, s.timeout // 3))
            if r == z3.unsat: return False
        cs_ = _check_sat_inproc if len(st.pc) <= 24 else check_sat
        r, _ = cs_(list(st.pc) + list(s.axioms) + [c], s.timeout)
        return r != z3.unsat

    def _isbound(s, x):
        k = x.get_id()
        if k not in s._bcache: s._bcache[k] = (len(_vars(x)) <= 1 and not z3.is_eq(x))
        return s._bcache[k]

    # ---- operands
    def val(s, p, ty, st):
        k, v = p.next()
        rt = s.L.res(ty)
        if k in ('id', 'qid'):
            if v[0] == '%': return st.env[v]
            return Ptr(v, 0)
        if k == 'num':
            if isinstance(rt, FloatTy):
                if v.startswith('0x'): d = struct.unpack('<d', struct.pack('<Q', int(v, 16)))[0]
                else: d = float(v)
                if d != d or d in (float('inf'), float('-inf')): raise Unsupported('non-finite FP constant in real mode')
                return Rat(Fraction(d))
            n = int(v)
            if n < 0: n += 1 << rt.n
            return n
        if v == 'true': return 1
        if v == 'false': return 0
        if v == 'null': return Ptr(None, 0)
        if v in ('undef', 'poison', 'zeroinitializer'):
            if isinstance(rt, FloatTy): return Rat(Fraction(0))
            if isinstance(rt, PtrTy): return Ptr(None, 0)
            if isinstance(rt, IntTy): return 0
            return ('agg0', rt)
        if v == 'getelementptr':
            p.accept('inbounds'); p.expect('(')
            bt = p.type(); p.expect(','); pt = p.type(); pv = s.val(p, pt, st); idx = []
            while p.accept(','):
                p.accept('inrange'); it = p.type(); idx.append(s.val(p, it, st))
            p.expect(')'); return s.gep(bt, pv, idx)
        if v == 'bitcast':
            p.expect('('); ft = p.type(); fv = s.val(p, ft, st); p.expect('to'); p.type(); p.expect(')'); return fv
        raise Unsupported('operand %s' % v)

    def gep(s, bt, pv, idx):
        off = pv.off + idx[0] * s.L.sizeof(bt); t = bt
        for i in idx[1:]:
            rt = s.L.res(t)
            if isinstance(rt, StructTy): off += s.L.fieldoff(rt, i); t = rt.fields[i]
            else: off += i * s.L.sizeof(rt.el); t = rt.el
        return Ptr(pv.obj, off)

    # ---- memory
    def load(s, st, ptr, ty):
        key = (ptr.obj, ptr.off)
        if key in st.mem: return st.mem[key]
        if isinstance(ptr.obj, str) and ptr.obj.startswith('@') and ptr.obj in s.m.globals:
            s.init_global(st, ptr.obj)
            if key in st.mem: return st.mem[key]
        rt = s.L.res(ty)
        if isinstance(rt, FloatTy):
            v = Rat(s.newreal('undef')); st.mem[key] = v; return v
        raise Unsupported('load of uninitialised %r as %r' % (key, ty))

    def init_global(s, st, g):
        ty, init, const, ext = s.m.globals[g]
        if init is None: raise Unsupported('external global ' + g)
        if hasattr(init, 'i0'): init.i = init.i0
        else: init.i0 = init.i
        s.store_const(st, Ptr(g, 0), ty, init)

    def store_const(s, st, ptr, ty, p):
        rt = s.L.res(ty)
        k, v = p.peek()
        if isinstance(rt, (IntTy, FloatTy, PtrTy)):
            st.mem[(ptr.obj, ptr.off)] = s.val(p, ty, st); return
        if v == 'zeroinitializer':
            p.next()
            for (o, kind, sz) in s.L.flatten(rt):
                st.mem[(ptr.obj, ptr.off + o)] = Rat(Fraction(0)) if kind == 'f' else 0
            return
        if isinstance(rt, ArrTy):
            if k == 'str':
                p.next(); raise Unsupported('string constant')
            p.expect('['); es = s.L.sizeof(rt.el)
            for i in range(rt.n):
                et = p.type(); s.store_const(st, Ptr(ptr.obj, ptr.off + i * es), et, p)
                if i < rt.n - 1: p.expect(',')
            p.expect(']'); return
        if isinstance(rt, StructTy):
            pk = p.accept('<'); p.expect('{')
            for i in range(len(rt.fields)):
                et = p.type(); s.store_const(st, Ptr(ptr.obj, ptr.off + s.L.fieldoff(rt, i)), et, p)
                if i < len(rt.fields) - 1: p.expect(',')
            p.expect('}')
            if pk: p.expect('>')
            return
        raise Unsupported('constant of type %r' % (rt,))

    # ---- running
    def run(s, fname, args, st):
        """yields (final state, return value) for every feasible path"""
        for r in s.call(fname, args, st):
            s.npaths += 1
            if s.npaths > s.max_paths: raise PathLimit('more than %d paths' % s.max_paths)
            yield r

    def call(s, fname, args, st):
        f = s.m.funcs['@' + fname] if not fname.startswith('@') else s.m.funcs[fname]
        s.funcs_run.add(f.name[1:])
        saved = st.env
        env = {}
        for (t, n), a in zip(f.params, args): env[n] = a
        st.env = env
        blocks = {b[0]: b[1] for b in f.blocks}
        work = [(st, f.blocks[0][0], None, 0)]
        while work:
            if s.deadline and time.time() > s.deadline: raise PathLimit('time budget exceeded while exploring paths')
            st, lbl, prev, start = work.pop()
            for item in s.block(f, blocks, st, lbl, prev, start):
                if item[0] == 'ret':
                    fs = item[1]; fs.env = dict(saved); yield fs, item[2]
                elif item[0] == 'resume':
                    work.append((item[1], lbl, prev, item[2]))
                else:
                    work.append((item[1], item[2], lbl, 0))

    def fork(s, st, c, res, a, b, idx):
        out = []
        if s.feasible(st, c):
            t = st.clone(); t.pc.append(c); t.env[res] = a; out.append(('resume', t, idx + 1))
        nc = NOT(c)
        if s.feasible(st, nc):
            t = st.clone(); t.pc.append(nc); t.env[res] = b; out.append(('resume', t, idx + 1))
        return out

    def asbool(s, v):
        if isinstance(v, int): return bool(v)
        return v

    def sincos(s, st, x):
        x = R(x)
        if x.conc():
            key = x.frac()
            if key in s.conc_trig: return s.conc_trig[key]
            f = float(key); return (Rat(Fraction(math.sin(f))), Rat(Fraction(math.cos(f))))
        key = (str(z3.simplify(x.n) if not isconst(x.n) else x.n), str(z3.simplify(x.d) if not isconst(x.d) else x.d))
        if key not in s.uf:
            sv = s.newreal('sin'); cv = s.newreal('cos'); s.uf[key] = (sv, cv, x)
            s.axioms.append(sv * sv + cv * cv == 1)
        sv, cv, _ = s.uf[key]
        return Rat(sv), Rat(cv)

    def quotient(s, st, a, b):
        """a / b.  With div_as_var the quotient of symbolic operands is a fresh real q constrained by q*b == a, which keeps
        later comparisons and sign reasoning linear in q instead of cross-multiplying ever larger polynomials"""
        if not s.div_as_var or (a.conc() and b.conc()) or isconst(b.n) and isconst(b.d): return rdiv(a, b)
        q = s.newreal('quo')
        st.pc.append(q * b.n * a.d == a.n * b.d)
        return Rat(q)

    def instantiate_trig_axioms(s):
        """parity and double-angle instances for every pair of registered sin/cos arguments whose ratio is -1, 2 or -2
        (decided by a premise-free identity check); each instance is recorded in s.axioms / s.trig_instances"""
        keys = list(s.uf.items())
        for i, (ka, (sa, ca, xa)) in enumerate(keys):
            for j, (kb, (sb, cb, xb)) in enumerate(keys):
                if i == j or (ka, kb) in s._trig_done: continue
                s._trig_done.add((ka, kb))
                for k in (-1, 2, -2):
                    # xb == k * xa ?
                    idn = (xb.n * xa.d == k * xa.n * xb.d)
                    if isinstance(idn, bool): ok = idn
                    else:
                        q = z3.Solver(); q.set('timeout', 1000); q.add(z3.Not(idn)); ok = (q.check() == z3.unsat)
                    if not ok: continue
                    if k == -1: ax = [sb == -sa, cb == ca]
                    elif k == 2: ax = [sb == 2 * sa * ca, cb == ca * ca - sa * sa]
                    else: ax = [sb == -2 * sa * ca, cb == ca * ca - sa * sa]
                    s.axioms += ax
                    s.trig_instances.append('arg[%s] == %d * arg[%s]' % (kb[0][:40], k, ka[0][:40]))
                    break

    def block(s, f, blocks, st, lbl, prev, start=0):
        insts = blocks[lbl]
        if start == 0:
            newv = {}
            for ins in insts:
                if ins.op != 'phi': break
                p = P(ins.toks)
                while p.peek()[1] in FASTMATH: p.next()
                ty = p.type()
                while True:
                    p.expect('['); st0 = p.i; depth = 0
                    while not (p.peek()[1] == ',' and depth == 0):
                        if p.peek()[1] in '([{': depth += 1
                        if p.peek()[1] in ')]}': depth -= 1
                        p.next()
                    vt = p.t[st0:p.i]; p.expect(','); pred = p.next()[1]; p.expect(']')
                    if pred == prev: newv[ins.res] = s.val(P(vt), ty, st)
                    if not p.accept(','): break
            st.env.update(newv)
        for idx, ins in enumerate(insts):
            if idx < start: continue
            op = ins.op
            if op == 'phi': continue
            p = P(ins.toks)
            while p.peek()[1] in FLAGS:
                if p.peek()[1] in FASTMATH: raise Unsupported('fast-math flag')
                p.next()
            try:
                r = s.inst(f, st, ins, op, p, idx)
            except Unsupported as e:
                raise Unsupported('%s: in %s: %s' % (e, f.name, ins.raw[:140]))
            if r is not None: return r
        return []

    def inst(s, f, st, ins, op, p, idx):
        env = st.env
        if op in ('fadd', 'fsub', 'fmul', 'fdiv'):
            ty = p.type(); a = s.val(p, ty, st); p.expect(','); b = s.val(p, ty, st)
            if op == 'fadd': r = radd(a, b)
            elif op == 'fsub': r = rsub(a, b)
            elif op == 'fmul': r = rmul(a, b)
            else:
                if isconst(b.n):
                    if b.n == 0: raise Unsupported('division by constant zero')
                else:
                    nz = b.n != 0
                    out = []
                    if s.check_divzero and s.feasible(st, b.n == 0):
                        t = st.clone(); t.pc.append(b.n == 0); t.exc = 'DIVZERO'; out.append(('ret', t, None))
                        s.divzero_paths += 1
                    if not s.feasible(st, nz): return out      # only division by zero possible here
                    st.pc.append(nz)
                    if out:
                        st.env[ins.res] = s.quotient(st, a, b)
                        return out + [('resume', st, idx + 1)]
                r = s.quotient(st, a, b)
            env[ins.res] = r
        elif op == 'fneg':
            ty = p.type(); env[ins.res] = rneg(s.val(p, ty, st))
        elif op in ('add', 'sub', 'mul', 'and', 'or', 'xor', 'shl', 'lshr', 'ashr', 'urem', 'udiv', 'sdiv', 'srem'):
            ty = p.type(); a = s.val(p, ty, st); p.expect(','); b = s.val(p, ty, st)
            if not (isinstance(a, int) and isinstance(b, int)):
                if ty.n == 1 and op in ('and', 'or', 'xor'):
                    A = s.asbool(a); B = s.asbool(b)
                    env[ins.res] = {'and': AND, 'or': OR, 'xor': lambda x, y: z3.Xor(x if not isinstance(x, bool) else z3.BoolVal(x), y if not isinstance(y, bool) else z3.BoolVal(y))}[op](A, B)
                    if isinstance(env[ins.res], bool): env[ins.res] = int(env[ins.res])
                    return None
                raise Unsupported('symbolic integer arithmetic')
            n = ty.n; M = (1 << n) - 1
            def sg(x): return x - (1 << n) if x >= 1 << (n - 1) else x
            if op == 'add': r = a + b
            elif op == 'sub': r = a - b
            elif op == 'mul': r = a * b
            elif op == 'and': r = a & b
            elif op == 'or': r = a | b
            elif op == 'xor': r = a ^ b
            elif op == 'shl': r = a << b
            elif op == 'lshr': r = a >> b
            elif op == 'ashr': r = sg(a) >> b
            elif op == 'udiv': r = a // b
            elif op == 'urem': r = a % b
            elif op == 'sdiv': r = int(Fraction(sg(a), sg(b))) if sg(b) else 0
            elif op == 'srem': r = sg(a) - sg(b) * int(Fraction(sg(a), sg(b)))
            env[ins.res] = r & M
        elif op == 'icmp':
            pred = p.next()[1]; ty = p.type(); a = s.val(p, ty, st); p.expect(','); b = s.val(p, ty, st)
            if isinstance(a, Ptr) or isinstance(b, Ptr):
                a = (a.obj, a.off); b = (b.obj, b.off)
                env[ins.res] = int((a == b) if pred == 'eq' else (a != b))
                return None
            if not (isinstance(a, int) and isinstance(b, int)):
                if s.L.res(ty).n == 1:
                    A = s.asbool(a); B = s.asbool(b)
                    A = A if not isinstance(A, bool) else z3.BoolVal(A); B = B if not isinstance(B, bool) else z3.BoolVal(B)
                    env[ins.res] = (A == B) if pred == 'eq' else z3.Xor(A, B)
                    return None
                raise Unsupported('symbolic integer compare')
            n = s.L.res(ty).n
            def sg(x): return x - (1 << n) if x >= 1 << (n - 1) else x
            if pred[0] == 's': a, b = sg(a), sg(b)
            env[ins.res] = int({'eq': a == b, 'ne': a != b, 'ult': a < b, 'ule': a <= b, 'ugt': a > b, 'uge': a >= b,
                                'slt': a < b, 'sle': a <= b, 'sgt': a > b, 'sge': a >= b}[pred])
        elif op == 'fcmp':
            pred = p.next()[1]; ty = p.type(); a = s.val(p, ty, st); p.expect(','); b = s.val(p, ty, st)
            if pred == 'ord' or pred == 'true': c = True
            elif pred == 'uno' or pred == 'false': c = False
            else:
                l, r = _cross(a, b)
                c = {'eq': l == r, 'ne': l != r, 'gt': l > r, 'ge': l >= r, 'lt': l < r, 'le': l <= r}[pred[1:]]
            env[ins.res] = int(c) if isinstance(c, bool) else c
        elif op == 'select':
            ct = p.type(); c = s.val(p, ct, st); p.expect(','); ty = p.type(); a = s.val(p, ty, st); p.expect(','); p.type(); b = s.val(p, ty, st)
            if isinstance(c, int): env[ins.res] = a if c else b
            elif isinstance(a, Rat) and isinstance(b, Rat):
                if a.conc() and b.conc(): return s.fork(st, c, ins.res, a, b, idx)      # two FP constants: one path each
                zr = lambda v: z3.RealVal(str(v)) if isconst(v) else v        # python ints / Fractions are not coerced by z3.If
                if isconst(a.d) and isconst(b.d) and a.d == b.d: env[ins.res] = Rat(z3.If(c, zr(a.n), zr(b.n)), a.d)
                else: env[ins.res] = Rat(z3.If(c, zr(a.n) * zr(b.d), zr(b.n) * zr(a.d)), a.d * b.d)
            elif isinstance(a, (int, Ptr, tuple)) or isinstance(b, (int, Ptr, tuple)):
                if isinstance(a, int) and isinstance(b, int) and s.L.res(ty).n == 1:
                    env[ins.res] = z3.If(c, z3.BoolVal(bool(a)), z3.BoolVal(bool(b)))
                else:
                    return s.fork(st, c, ins.res, a, b, idx)
            else:
                A = s.asbool(a); B = s.asbool(b)
                A = A if not isinstance(A, bool) else z3.BoolVal(A); B = B if not isinstance(B, bool) else z3.BoolVal(B)
                env[ins.res] = z3.If(c, A, B)
        elif op == 'getelementptr':
            bt = p.type(); p.expect(','); pt = p.type(); pv = s.val(p, pt, st); gi = []
            while p.accept(','):
                it = p.type(); iv = s.val(p, it, st)
                if not isinstance(iv, int): raise Unsupported('symbolic index')
                n = s.L.res(it).n
                if iv >= 1 << (n - 1): iv -= 1 << n
                gi.append(iv)
            env[ins.res] = s.gep(bt, pv, gi)
        elif op == 'load':
            ty = p.type(); p.expect(','); pt = p.type(); pv = s.val(p, pt, st)
            env[ins.res] = s.load(st, pv, ty)
        elif op == 'store':
            ty = p.type(); v = s.val(p, ty, st); p.expect(','); pt = p.type(); pv = s.val(p, pt, st)
            if isinstance(v, tuple) and v[0] == 'agg0':
                for (o, kind, sz) in s.L.flatten(v[1]): st.mem[(pv.obj, pv.off + o)] = Rat(Fraction(0)) if kind == 'f' else 0
            else:
                st.mem[(pv.obj, pv.off)] = v
        elif op == 'alloca':
            s.fresh += 1; env[ins.res] = Ptr('alloca%d' % s.fresh, 0)
        elif op in ('bitcast', 'freeze'):
            ft = p.type(); env[ins.res] = s.val(p, ft, st)
        elif op in ('zext', 'sext', 'trunc'):
            ft = p.type(); v = s.val(p, ft, st); p.expect('to'); tt = p.type()
            if not isinstance(v, int):
                if ft.n == 1: return s.fork(st, v, ins.res, (1 if op == 'zext' else (1 << tt.n) - 1), 0, idx)
                raise Unsupported('symbolic integer cast')
            if op == 'sext' and v >= 1 << (ft.n - 1): v -= 1 << ft.n
            env[ins.res] = v & ((1 << tt.n) - 1)
        elif op in ('sitofp', 'uitofp'):
            ft = p.type(); v = s.val(p, ft, st); p.expect('to'); p.type()
            if not isinstance(v, int): raise Unsupported('symbolic int to fp')
            if op == 'sitofp' and v >= 1 << (ft.n - 1): v -= 1 << ft.n
            env[ins.res] = Rat(Fraction(v))
        elif op in ('fptosi', 'fptoui'):
            ft = p.type(); v = s.val(p, ft, st); p.expect('to'); tt = p.type()
            if not v.conc(): raise Unsupported('symbolic fp to int')
            q = v.frac(); iv = int(q)     # truncation toward zero
            env[ins.res] = iv & ((1 << tt.n) - 1)
        elif op in ('fpext', 'fptrunc'):
            ft = p.type(); env[ins.res] = s.val(p, ft, st)     # exact in the reals
        elif op == 'switch':
            ty = p.type(); v = s.val(p, ty, st); p.expect(','); p.expect('label'); dflt = p.next()[1]; p.expect('[')
            if not isinstance(v, int): raise Unsupported('symbolic switch')
            tgt = dflt
            while not p.accept(']'):
                ct = p.type(); cv = s.val(p, ct, st); p.expect(','); p.expect('label'); d = p.next()[1]
                if cv == v: tgt = d
            return [('br', st, tgt)]
        elif op == 'extractvalue':
            ty = p.type(); v = s.val(p, ty, st); p.expect(','); k = int(p.next()[1])
            if isinstance(v, tuple) and v and v[0] == 'aggv': env[ins.res] = v[1][k]      # aggregate returned by a call model (e.g. complex libm)
            else: raise Unsupported('extractvalue')
        elif op in ('call', 'invoke'):
            while p.peek()[1] in FN_KW or p.peek()[1] in PARAM_ATTRS or p.peek()[1] in PARAM_ATTRS_ARG:
                if p.peek()[1] in PARAM_ATTRS_ARG:
                    p.next()
                    if p.accept('('): p.next(); p.expect(')')
                    else: p.next()
                else: p.next()
            rty = parse_type_nofn_call(p); callee = p.next()[1]; p.expect('(')
            nm = callee[1:]
            normal = None
            if op == 'invoke':
                toks = [t[1] for t in ins.toks]; i = len(toks) - 1 - toks[::-1].index('to'); normal = toks[i + 2]; unwind = toks[i + 5]
            if nm.startswith('llvm.lifetime') or nm.startswith('llvm.experimental') or nm.startswith('llvm.dbg') or nm.startswith('llvm.assume'):
                return [('br', st, normal)] if normal else None
            args = []
            if not p.accept(')'):
                while True:
                    at = p.type(); p.skip_param_attrs()
                    if isinstance(at, NamedTy) and at.name == 'metadata':
                        while p.peek()[1] not in (',', ')'): p.next()
                        args.append(None)
                    else: args.append(s.val(p, at, st))
                    if p.accept(')'): break
                    p.expect(',')
            r = s.builtin(st, ins, nm, args, rty)
            if r is not NotImplemented:
                if isinstance(r, list): return r
                if normal: return [('br', st, normal)]
                return None
            if nm in s.contracts:
                s.contracts_used.add(nm)
                rv = s.contracts[nm](s, st, args)
                if rv is None and ins.res is not None and not isinstance(rty, VoidTy): return []
                if ins.res is not None: st.env[ins.res] = rv
                if normal: return [('br', st, normal)]
                return None
            if callee in s.m.funcs:
                out = []
                for fs, rv in s.call(callee, args, st.clone()):
                    if fs.exc is not None:
                        if op == 'invoke': out.append(('br', fs, unwind))
                        else: out.append(('ret', fs, None))
                        continue
                    if ins.res is not None: fs.env[ins.res] = rv
                    if normal: out.append(('br', fs, normal))
                    else: out.append(('resume', fs, idx + 1))
                return out
            raise Unsupported('call to external ' + nm)
        elif op == 'landingpad':
            env[ins.res] = 0
        elif op == 'resume':
            return [('ret', st, None)]
        elif op == 'br':
            if p.peek()[1] == 'label':
                p.next(); return [('br', st, p.next()[1])]
            ct = p.type(); c = s.val(p, ct, st); p.expect(','); p.expect('label'); d1 = p.next()[1]; p.expect(','); p.expect('label'); d2 = p.next()[1]
            if isinstance(c, int): return [('br', st, d1 if c else d2)]
            out = []
            nc = NOT(c)
            f1 = s.feasible(st, c); f2 = s.feasible(st, nc)
            if f1 and f2:
                t = st.clone(); t.pc.append(c); out.append(('br', t, d1))
                st.pc.append(nc); out.append(('br', st, d2))
            elif f1: st.pc.append(c); out.append(('br', st, d1))
            elif f2: st.pc.append(nc); out.append(('br', st, d2))
            return out
        elif op == 'ret':
            if p.peek()[1] == 'void': return [('ret', st, None)]
            ty = p.type(); return [('ret', st, s.val(p, ty, st))]
        elif op == 'unreachable':
            return []
        elif op == 'fence':
            pass
        else:
            raise Unsupported('opcode ' + op)
        return None

    def builtin(s, st, ins, nm, args, rty):
        env = st.env
        def setr(v):
            if ins.res is not None: env[ins.res] = v
        base = nm
        if nm.startswith('llvm.'):
            base = nm.split('.')[1]
        elif nm.endswith('f') and nm[:-1] in ('sin', 'cos', 'tan', 'atan2', 'acos', 'asin', 'atan', 'sqrt', 'fabs', 'exp', 'log', 'pow', 'cbrt', 'fmod', 'floor', 'ceil'):
            base = nm[:-1]
        if nm in s.calls or base in s.calls:      # obligation-supplied model takes precedence over the built-in treatment
            r = s.calls[nm if nm in s.calls else base](s, st, args)
            setr(r); return None
        if nm.startswith('llvm.memset'):
            b = args[0]; n = args[2]
            if not isinstance(n, int) or args[1] != 0: raise Unsupported('memset')
            for o in range(0, n, 4): st.mem[(b.obj, b.off + o)] = Rat(Fraction(0))
            st.mem[('memset0', b.obj, b.off, n)] = 1
            return None
        if nm.startswith('llvm.memcpy') or nm.startswith('llvm.memmove'):
            d, sr, n = args[0], args[1], args[2]
            if not isinstance(n, int): raise Unsupported('memcpy size')
            if isinstance(sr.obj, str) and sr.obj.startswith('@') and (sr.obj, sr.off) not in st.mem and sr.obj in s.m.globals: s.init_global(st, sr.obj)
            cp = [(k, v) for k, v in st.mem.items() if len(k) == 2 and k[0] == sr.obj and sr.off <= k[1] < sr.off + n]
            for k in [k for k in st.mem if len(k) == 2 and k[0] == d.obj and d.off <= k[1] < d.off + n]: del st.mem[k]
            for k, v in cp: st.mem[(d.obj, d.off + k[1] - sr.off)] = v
            return None
        if base == 'sqrt':
            x = R(args[0])
            if x.conc():
                q = x.frac()
                if q < 0: return []
                exact = math.isqrt(q.numerator * q.denominator) ** 2 == q.numerator * q.denominator
                if exact or getattr(s, 'approx_sqrt', False):
                    rt = Fraction(math.isqrt(q.numerator * q.denominator), q.denominator) if exact else Fraction(math.sqrt(float(q)))
                    setr(Rat(rt)); return None
                # irrational root of a concrete value in a symbolic run: exact, as an algebraic witness
                y = s.newreal('sqrt'); st.pc += [y > 0, y * y * q.denominator == q.numerator]; st.wit.append((x, y))
                setr(Rat(y)); return None
            y = s.newreal('sqrt')
            nn = (x.n * x.d >= 0)
            if not s.feasible(st, nn): return []
            st.pc += [nn, y >= 0, y * y * x.d == x.n]
            st.wit.append((x, y))
            setr(Rat(y)); return None
        if base in ('sin', 'cos'):
            sv, cv = s.sincos(st, args[0]); setr(sv if base == 'sin' else cv); return None
        if base == 'fabs':
            x = R(args[0])
            if x.conc(): setr(Rat(abs(x.frac())))
            else: setr(Rat(zabs(x.n), zabs(x.d)))
            return None
        if base in ('minnum', 'maxnum', 'fmin', 'fmax'):
            a, b = R(args[0]), R(args[1]); c = le(a, b) if base in ('minnum', 'fmin') else le(b, a)
            if isinstance(c, bool): setr(a if c else b)
            else: setr(Rat(z3.If(c, a.n * b.d, b.n * a.d), a.d * b.d))
            return None
        if base == 'fmuladd':
            setr(radd(rmul(args[0], args[1]), args[2])); return None
        if base == 'copysign':
            a, b = R(args[0]), R(args[1])
            if a.conc() and b.conc(): setr(Rat(abs(a.frac()) * (1 if b.frac() >= 0 else -1))); return None
            sg = (b.n * b.d >= 0) if not b.conc() else bool(b.frac() >= 0)
            mn, md = zabs(a.n), zabs(a.d)
            setr(Rat(mn if sg is True else -mn if sg is False else z3.If(sg, mn, -mn), md)); return None
        if nm in s.calls:      # obligation-supplied model of an external (libm UF with axioms etc.)
            r = s.calls[nm](s, st, args)
            setr(r); return None
        if base in s.calls:
            r = s.calls[base](s, st, args)
            setr(r); return None
        if nm == '__cxa_allocate_exception': setr(Ptr('exc', 0)); return None
        if nm == '__cxa_free_exception': return None
        if nm == '__cxa_throw':
            st.exc = args[1].obj; return [('ret', st, None)]
        if nm.startswith('_ZNSt') and ('errorC' in nm or 'argumentC' in nm or 'exceptionC' in nm):
            return None      # exception object constructors (libstdc++): no effect on the numeric state
        return NotImplemented


# ---------------------------------------------------------------------------------------------------
def _check_sat_inproc(cons, timeout_ms):
    """portfolio: z3's SMT core with nonlinear arithmetic lemmas (incremental linearisation + Groebner; strong on
    equality-heavy UNSAT problems), then nlsat (complete CAD procedure; finds models).  returns (z3 result, solver)"""
    cons = [c for c in cons if c is not True]
    if any(c is False for c in cons): 
        sol = z3.Solver(); sol.add(z3.BoolVal(False)); return sol.check(), sol
    # stage 1: nlsat, short (most identities and easy path conditions are immediate)
    b = z3.Solver(); b.set('timeout', max(200, min(2000, int(timeout_ms * 0.15)))); b.add(*cons)
    r = b.check()
    if r != z3.unknown: return r, b
    # stage 2: SMT core with nonlinear lemmas
    a = z3.Tactic('smt').solver(); a.set('timeout', max(200, int(timeout_ms * 0.3))); a.add(*cons)
    r = a.check()
    if r != z3.unknown: return r, a
    # stage 3: nlsat with the remaining budget
    b = z3.Solver(); b.set('timeout', max(300, int(timeout_ms * 0.55))); b.add(*cons)
    r = b.check()
    return r, b


class _DictModel:
    """model handed back from a solver child process: variable name -> exact rational (algebraic values approximated to 1e-30)"""
    def __init__(s, vals): s.vals = vals
    def eval(s, e, model_completion=True):
        vs = _vars(e)
        return z3.simplify(z3.substitute(e, [(z3.Real(k), z3.RealVal(str(s.vals.get(k, Fraction(0))))) for k in vs]))
    def model(s): return s


def check_sat(cons, timeout_ms):
    """the portfolio of _check_sat_inproc with a HARD deadline: z3's nlsat occasionally overruns its own timeout by minutes
    (non-interruptible algebraic computations), so the query runs in a forked child that is killed at 1.5 x timeout + 1 s."""
    cons = [c for c in cons if c is not True]
    if any(c is False for c in cons):
        return z3.unsat, None
    if os.environ.get('VERIF_NOFORK'): return _check_sat_inproc(cons, timeout_ms)
    rfd, wfd = os.pipe()
    pid = os.fork()
    if pid == 0:
        code = 0
        try:
            os.close(rfd)
            r, sol = _check_sat_inproc(cons, timeout_ms)
            out = {'r': str(r), 'vals': {}}
            if r == z3.sat:
                m = sol.model()
                for d in m.decls():
                    if d.arity() != 0: continue
                    v = m[d]
                    try:
                        if z3.is_rational_value(v): out['vals'][d.name()] = (v.numerator_as_long(), v.denominator_as_long())
                        elif z3.is_algebraic_value(v):
                            a = v.approx(30); out['vals'][d.name()] = (a.numerator_as_long(), a.denominator_as_long())
                    except Exception: pass
            import pickle
            data = pickle.dumps(out)
            with os.fdopen(wfd, 'wb') as f: f.write(data)
        except BaseException:
            code = 1
        os._exit(code)
    os.close(wfd)
    import select, pickle, signal
    deadline = time.time() + timeout_ms * 1.5 / 1000.0 + 1.0
    buf = b''
    try:
        while True:
            left = deadline - time.time()
            if left <= 0: break
            rd, _, _ = select.select([rfd], [], [], left)
            if not rd: break
            chunk = os.read(rfd, 1 << 16)
            if not chunk: break
            buf += chunk
    finally:
        os.close(rfd)
        try: os.kill(pid, signal.SIGKILL)
        except OSError: pass
        try: os.waitpid(pid, 0)
        except OSError: pass
    if not buf: return z3.unknown, None
    try: out = pickle.loads(buf)
    except Exception: return z3.unknown, None
    r = {'sat': z3.sat, 'unsat': z3.unsat}.get(out['r'], z3.unknown)
    return r, _DictModel({k: Fraction(n, d) for k, (n, d) in out['vals'].items()})


def solve(pc, claim, extra=(), timeout_ms=30000, npre=0):
    """is (pc and extra) => claim valid?  returns ('unsat'|'sat'|'unknown', model or None, seconds).
    nlsat pays for every irrelevant polynomial constraint, so weaker premise sets are tried first (sound: proving the
    claim from a subset of the path condition proves it from all of it): the last 1, the last 3, then everything.
    Only the full premise set can produce a counterexample."""
    t0 = time.time()
    solve.candidates = []     # models of relaxed queries (premise subsets): candidate inputs, meaningful only if they replay natively
    if claim is True: return 'unsat', None, 0.0
    neg = z3.BoolVal(True) if claim is False else z3.Not(claim)
    if claim is not False and _size(claim, 2500) < 2500:
        # polynomial identities are decided by z3's simplifier once both sides are expanded to sums of monomials;
        # nlsat (CAD) would otherwise be asked to refute "p != 0" for an identically zero p in a dozen variables
        neg2 = z3.simplify(neg, som=True, arith_lhs=True)
        if os.environ.get('VERIF_TRACE'): sys.stderr.write('[trace solve] som %.1fs\n' % (time.time() - t0))
        if z3.is_false(neg2): return 'unsat', None, time.time() - t0
    pc = list(pc)
    # the first npre entries of pc are the case's preconditions: the non-trivial ones (not single-variable range
    # bounds) are kept in every premise subset, the range bounds only in the full set
    isb = [len(_vars(c)) <= 1 and z3.is_and(c) for c in pc]      # two-sided numeric range of one variable; one-sided facts (r >= 0, witness > 0) are kept
    ess = [c for c, b in zip(pc[:npre], isb[:npre]) if not b]
    rest = pc[npre:]
    nonbound = [c for c, b in zip(pc, isb) if not b]
    tried = set()
    # relevance subset: the non-bound constraints that only mention variables of the negated claim (inputs and the
    # square-root / quotient witnesses it refers to) -- leaves out every constraint about unrelated witnesses
    vc = _vars(neg)
    relv = [c for c, b in zip(pc, isb) if not b and _vars(c) <= vc]
    cv = [_vars(c) for c in pc]
    inputs = set()
    for v in cv[:npre]: inputs |= v
    def closure(k):
        base = set(vc)
        for v in cv[max(npre, len(pc) - k):]: base |= v
        return [c for c, b, v in zip(pc, isb, cv) if (not b or not (v <= inputs)) and v <= base]
    relv1 = closure(1); relv3 = closure(3)
    trace = os.environ.get('VERIF_TRACE')
    for sub, share in ((ess, 0.05), (ess + rest[-1:], 0.08), (relv, 0.15), (relv1, 0.15), (relv3, 0.15), (ess + rest[-3:], 0.12), (nonbound, 0.25)):
        key = tuple(sorted(c.get_id() for c in sub))
        if len(sub) >= len(pc) or key in tried: continue
        tried.add(key)
        t1 = time.time()
        if trace: sys.stderr.write('[trace solve] trying subset %d (relv=%s) sizes=%s negsize=%d\n' % (len(sub), sub is relv, [_size(c, 100000) for c in sub][:12], _size(neg, 100000)))
        r, sol = check_sat(list(sub) + list(extra) + [neg], max(300, int(timeout_ms * share)))
        if trace: sys.stderr.write('[trace solve] subset %d/%d -> %s %.1fs\n' % (len(sub), len(pc), r, time.time() - t1))
        if r == z3.unsat: return 'unsat', None, time.time() - t0
        if r == z3.sat and len(sub) > len(ess):
            try: solve.candidates.append((len(sub), sol.model()))
            except Exception: pass
    r, sol = check_sat(list(pc) + list(extra) + [neg], timeout_ms)
    m = sol.model() if r == z3.sat else None
    return str(r), m, time.time() - t0


solve.candidates = []


def _size(f, cap):
    n = 0; todo = [f]; seen = set()
    while todo and n < cap:
        e = todo.pop()
        if e.get_id() in seen: continue
        seen.add(e.get_id()); n += 1
        todo.extend(e.children())
    return n


def _vars(f):
    out = set(); todo = [f]; seen = set()
    while todo:
        e = todo.pop()
        if e.get_id() in seen: continue
        seen.add(e.get_id())
        if z3.is_const(e) and e.decl().kind() == z3.Z3_OP_UNINTERPRETED: out.add(str(e))
        todo.extend(e.children())
    return out


def model_value(m, v):
    """z3 model value of Real term -> Fraction (algebraic numbers approximated to 1e-20)"""
    x = m.eval(v, model_completion=True)
    if z3.is_rational_value(x): return Fraction(x.numerator_as_long(), x.denominator_as_long())
    if z3.is_algebraic_value(x):
        a = x.approx(30); return Fraction(a.numerator_as_long(), a.denominator_as_long())
    raise ValueError('no numeric value for %s' % v)
