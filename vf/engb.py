"""Convenience layer for engine-B properties: one wrapper TU -> IR -> generated C variants -> CBMC obligations."""
import os
from .common import *
from .runner import CbmcOb
from . import build as B, natval


class EngB:
    def __init__(s, chk, name, extra=(), noinline=False, std='c++17', py=False, defines=(), validate=True, vopts=None):
        s.chk = chk
        s.u = B.Unit(chk.wd, name, extra=[e if os.path.isabs(e) else os.path.join(SRC, e) for e in extra], noinline=noinline, std=std, py=py, defines=defines)
        s.vars = {}
        s.validate = validate; s.vopts = vopts or {}
        s._real = None
        import threading
        s._vlock = threading.RLock()

    def variant(s, tag, only=None, uf=None, uffunc=None, ubcheck=False, indirect=False):
      with s._vlock:
        if tag not in s.vars:
            hp, bp, info = s.u.gen(tag, only=only, uf=uf, uffunc=uffunc, ubcheck=ubcheck, indirect=indirect)
            s.vars[tag] = (hp, bp, info)
            s.chk.functions.update({k: '%d IR instructions' % v for k, v in info['functions'].items()})
            for k, v in info.get('skipped', {}).items():
                ent = '%s: %s' % (k, v)
                if ent not in s.chk.not_encodable: s.chk.not_encodable.append(ent)
            for st in info['stubs']:
                if st not in s.chk.stubs: s.chk.stubs.append(st)
            if s.validate and not uf and not uffunc and not ubcheck:
                natval.validate(s.chk, s.u, hp, bp, funcs=[r for r in info['roots']], **s.vopts)
        return s.vars[tag]

    def real(s):
        if s._real is None: s._real = s.u.real_so('g++')
        return s._real

    def ob(s, oid, harness, func, desc, variant='exact', defines=(), mode=None, extra_files=(), fallback=None, fallback_kw=None, **kw):
        if fallback is not None:
            kw2 = dict(kw); fk = dict(fallback_kw or {}); defs2 = fk.pop('defines', defines); kw2.update(fk)
            o = s.ob(oid, harness, func, desc, variant=variant, defines=defines, mode=mode, extra_files=extra_files, **kw)
            o.fallback = s.ob(oid, harness, func, desc, variant=fallback, defines=defs2, extra_files=extra_files, **kw2)
            return o
        hp, bp, info = s.vars[variant] if variant in s.vars else s.variant(variant)
        H = harness if os.path.isabs(harness) else os.path.join(VERIF, 'harness', harness)
        d = ('GEN_H="%s"' % os.path.basename(hp),) + tuple(defines)
        kw.setdefault('backends', ('minisat', 'kissat'))
        kw.setdefault('unwind', 2)
        m = mode or ('exact' if not (info['mode']['uf'] or info['mode']['uffunc']) else 'uf(%s)' % ','.join(info['mode']['uf'] + info['mode']['uffunc']))
        o = CbmcOb(oid, [H, bp] + list(extra_files), func, defines=d, incs=(s.chk.wd,), desc=desc, engine='B', mode=m, replay_link=(s.real(),), **kw)
        if (info['mode']['uf'] or info['mode']['uffunc']) and not info['mode']['ubcheck']:
            # every abstracted obligation can be re-decided on the exact IEEE encoding; the variant is generated only if a counterexample
            # of the abstraction fails to replay natively (vf/runner.py), so it costs nothing on a tree where the obligation holds
            def lazy(oid=oid, harness=harness, func=func, desc=desc, defines=defines, extra_files=extra_files, kw=dict(kw)):
                k2 = dict(kw); k2['timeout'] = max(600, k2.get('timeout', 0)); k2['backends'] = ('kissat', 'cadical', 'minisat')
                fb = s.ob(oid, harness, func, desc, variant='exact', defines=tuple(x for x in defines if x != 'UF_ARITH' and x != 'UF_DS'), extra_files=extra_files, **k2)
                fb.fallback_factory = None
                return fb
            o.fallback_factory = lazy
        return o
