"""Build pipeline: /repo working tree -> config header -> LLVM IR of wrapper TUs -> generated C (engine B),
parsed IR (engine C), and native shared objects of the *real* code (validation / replay)."""
import os, re, json
from .common import *
from . import ll2c

_cfg_cache = {}


def config_dir(wd):
    """cmake configure-only of /repo's current tree -> directory holding ImathConfig.h (regenerated every run)."""
    if wd in _cfg_cache:
        return _cfg_cache[wd]
    d = os.path.join(wd, 'cfg')
    os.makedirs(d, exist_ok=True)
    rc, out, err, dt = run(['cmake', '-S', REPO, '-B', d, '-DBUILD_TESTING=OFF', '-DPYTHON=OFF'], timeout=300)
    inc = os.path.join(d, 'config')
    if rc != 0 or not os.path.exists(os.path.join(inc, 'ImathConfig.h')):
        raise ToolFailure('cmake configure of /repo failed:\n' + out[-2000:] + err[-2000:])
    _cfg_cache[wd] = inc
    return inc


def includes(wd, py=False):
    inc = ['-I', config_dir(wd), '-I', SRC, '-I', os.path.join(VERIF, 'wrappers')]
    if py:
        inc += ['-I', PYSRC, '-I', '/usr/include/python3.11']
    return inc


IR_FLAGS = ['-O1', '-fno-vectorize', '-fno-slp-vectorize', '-fno-unroll-loops', '-ffp-contract=off',
            '-fno-math-errno', '-mllvm', '-inline-threshold=100000', '-S', '-emit-llvm', '-DNDEBUG', '-DVERIF_IR']


class Unit:
    """One wrapper translation unit (wrappers/<name>.cpp) plus the real .cpp files it links against."""

    def __init__(s, wd, name, extra=(), std='c++17', py=False, defines=(), noinline=False, lang='c++', src=None, keep_calls=()):
        s.wd = wd; s.name = name; s.extra = list(extra); s.std = std; s.py = py
        s.defines = list(defines); s.noinline = noinline; s.lang = lang
        s.src = src or os.path.join(VERIF, 'wrappers', name + ('.cpp' if lang == 'c++' else '.c'))
        s.ll = None; s.module = None; s._real = {}; s.build_s = 0.0
        s.keep_calls = [re.compile(r) for r in keep_calls]   # functions kept out of line (contract substitution in engine C)

    def _cc(s):
        return CLANGXX if s.lang == 'c++' else CLANG

    def ir(s):
        if s.ll:
            return s.ll
        t0 = time.time()
        flags = list(IR_FLAGS)
        if s.noinline:
            i = flags.index('-mllvm'); del flags[i:i + 2]
            flags.append('-fno-inline')
        parts = []
        for k, src in enumerate([s.src] + s.extra):
            out = os.path.join(s.wd, '%s.%d.ll' % (s.name, k))
            islang = 'c++' if src.endswith('.cpp') else 'c'
            cc = CLANGXX if islang == 'c++' else CLANG
            std = ['-std=' + s.std] if islang == 'c++' else []
            if s.keep_calls:
                # unoptimised IR with -O1 attributes, mark the selected definitions noinline, then run the -O1 pipeline
                raw = out + '.raw.ll'
                must([cc] + std + flags + ['-Xclang', '-disable-llvm-passes'] + ['-D' + d for d in s.defines] + includes(s.wd, s.py) + [src, '-o', raw], timeout=600)
                txt = open(raw).read().split('\n'); kept = 0
                for i, ln in enumerate(txt):
                    if ln.startswith('define '):
                        mm = re.search(r'@("?)([\w.$]+)\1\(', ln)
                        if mm and any(r.search(mm.group(2)) for r in s.keep_calls):
                            j = ln.rfind(' #')
                            txt[i] = (ln[:j] + ' noinline' + ln[j:]) if j > 0 else ln.replace(' {', ' noinline {'); kept += 1
                write(raw, '\n'.join(txt))
                must(['opt-14', '-S', '-passes=default<O1>', '-inline-threshold=100000', raw, '-o', out], timeout=600)
                s.kept = kept
            else:
                must([cc] + std + flags + ['-D' + d for d in s.defines] + includes(s.wd, s.py) + [src, '-o', out], timeout=600)
            parts.append(out)
        s.ll = os.path.join(s.wd, s.name + '.ll')
        if len(parts) == 1:
            os.replace(parts[0], s.ll)
        else:
            must([LLVM_LINK, '-S'] + parts + ['-o', s.ll])
        s.build_s += time.time() - t0
        return s.ll

    def parsed(s):
        if s.module is None:
            s.module = ll2c.parse_module(open(s.ir()).read())
        return s.module

    def wrapper_names(s):
        return [n[1:] for n in s.parsed().funcs if re.match(r'@w_', n)]

    def gen(s, tag='x', only=None, uf=None, uffunc=None, ubcheck=False, indirect=False):
        """IR -> C.  returns (header_path, body_path, info)"""
        t0 = time.time()
        opts = {}
        if uf: opts['uf'] = set(uf)
        if uffunc: opts['uffunc'] = set(uffunc)
        if ubcheck: opts['ubcheck'] = True
        if indirect: opts['indirect'] = True
        m = s.parsed()
        roots = ['@' + n for n in (only or s.wrapper_names())]
        for p in m.globals.values():   # initialiser parsers are stateful: reset
            if isinstance(p[1], ll2c.P) and hasattr(p[1], 'i0'): p[1].i = p[1].i0
        h, b, info = ll2c.translate(None, roots, opts, module=m)
        hp = os.path.join(s.wd, '%s.%s.gen.h' % (s.name, tag)); bp = os.path.join(s.wd, '%s.%s.gen.c' % (s.name, tag))
        write(hp, h); write(bp, '#include "%s"\n' % os.path.basename(hp) + b)
        info['header'] = hp; info['body'] = bp; info['mode'] = {'uf': sorted(uf or []), 'uffunc': sorted(uffunc or []), 'ubcheck': ubcheck}
        s.build_s += time.time() - t0
        return hp, bp, info

    def real_so(s, cxx='g++', opt='-O2'):
        """the real code, natively compiled (no translation): used for validation and replay"""
        key = (cxx, opt)
        if key in s._real:
            return s._real[key]
        t0 = time.time()
        out = os.path.join(s.wd, '%s.real.%s.so' % (s.name, cxx.replace('+', 'x')))
        srcs = [s.src] + s.extra + [os.path.join(VERIF, 'wrappers', 'verif_rt.c')]
        objs = []
        for k, src in enumerate(srcs):
            o = os.path.join(s.wd, '%s.real.%s.%d.o' % (s.name, cxx.replace('+', 'x'), k))
            isc = src.endswith('.c')
            cc = ('gcc' if cxx == 'g++' else CLANG) if isc else cxx
            std = [] if isc else ['-std=' + s.std]
            must([cc] + std + [opt, '-fPIC', '-ffp-contract=off', '-DNDEBUG', '-DVERIF_NATIVE', '-w', '-c'] + ['-D' + d for d in s.defines]
                 + includes(s.wd, s.py) + [src, '-o', o], timeout=900)
            objs.append(o)
        must([cxx, '-shared', '-o', out] + objs + (['-lpython3.11', '-lboost_python311'] if s.py else []), timeout=300)
        s._real[key] = out
        s.build_s += time.time() - t0
        return out

    def gen_so(s, hp, bp):
        out = bp[:-2] + '.so'
        must(['gcc', '-O1', '-fPIC', '-shared', '-ffp-contract=off', '-fno-strict-aliasing', '-fwrapv', '-w', '-I', s.wd, bp,
              os.path.join(VERIF, 'wrappers', 'verif_rt.c'), '-o', out, '-lm'], timeout=600)
        return out
