/* empty: half.h includes <x86intrin.h> only for the F16C intrinsics, unused without -mf16c */
