/* Model of the two F16C scalar intrinsics used by half.h when __F16C__ is defined (C02-O4).
 * VCVTPH2PS / VCVTPS2PH are CPU instructions, not repo code; this is their Intel SDM semantics for the
 * scalar lane: exact widening resp. round-to-nearest-even narrowing, NaNs quieted (payload top bits kept).
 * What the obligation decides is the repo's wiring: which intrinsic, which rounding immediate. */
#ifndef VERIF_F16C_MODEL
#define VERIF_F16C_MODEL
#include <stdint.h>
#define _MM_FROUND_TO_NEAREST_INT 0x00
#define _MM_FROUND_TO_NEG_INF 0x01
#define _MM_FROUND_TO_POS_INF 0x02
#define _MM_FROUND_TO_ZERO 0x03
#define _MM_FROUND_CUR_DIRECTION 0x04
#define _MM_FROUND_NO_EXC 0x08
extern int verif_f16c_bad_imm;
uint32_t verif_model_h2f_bits(uint16_t h);
uint16_t verif_model_f2h_bits(uint32_t f);
static inline float _cvtsh_ss(unsigned short h)
{
    union { uint32_t i; float f; } v;
    v.i = verif_model_h2f_bits(h);
    if ((v.i & 0x7f800000u) == 0x7f800000u && (v.i & 0x7fffffu)) v.i |= 0x00400000u; /* quieted */
    return v.f;
}
static inline unsigned short _cvtss_sh(float f, int imm)
{
    union { uint32_t i; float f; } v;
    v.f = f;
    if ((imm & 7) != _MM_FROUND_TO_NEAREST_INT) verif_f16c_bad_imm = 1;   /* any other mode would not be RNE */
    uint16_t r = verif_model_f2h_bits(v.i);
    if ((v.i & 0x7f800000u) == 0x7f800000u && (v.i & 0x7fffffu))
        r = (uint16_t)(((v.i >> 16) & 0x8000u) | 0x7e00u | ((v.i & 0x7fffffu) >> 13));           /* quieted NaN */
    return r;
}
#endif
