/* C12: the overflow guard of the scale extraction, on IEEE floats */
#include "verif.h"
#include GEN_H
HARNESS(h_checkzero3)
{
    IN(f32, scl); INA(f32, row, 3);
    ASSUME(fin_f32(scl) && fin_f32(row[0]) && fin_f32(row[1]) && fin_f32(row[2]));
    __verif_exc = 0; int ok = w_checkzero3f(scl, (void*)row, 0) & 1;
    CHECK(__verif_exc == 0, "exc=false never throws");
    f32 as = fabsf(scl);
    int bad = 0; for (int i = 0; i < 3; i++) if (as < 1.0f && fabsf(row[i]) >= 3.40282347e38f * as) bad = 1;
    CHECK(ok == !bad, "false exactly when |scl| < 1 and some |row_i| >= max*|scl|");
    if (ok && scl != 0.0f) for (int i = 0; i < 3; i++) { f32 q = row[i] / scl; CHECK(fin_f32(q), "guard passed => row_i / scl does not overflow"); }
    __verif_exc = 0; w_checkzero3f(scl, (void*)row, 1);
    CHECK((__verif_exc != 0) == bad && (__verif_exc == 0 || __verif_exc == VERIF_EXC__ZTISt12domain_error), "exc=true throws std::domain_error exactly in the same cases");
    END;
}
