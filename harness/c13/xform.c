/* C13: the value-returning and the out-parameter overloads of transform / affineTransform are two textual copies:
 * for every box and every matrix (affine or projective) they must produce identical bits, whatever `result` held
 * before the call.  FP arithmetic uninterpreted on both sides; comparisons exact. */
#include "verif.h"
#include GEN_H
#define PAIR(NAME, FA, FB, PIN)                                                                                    \
    HARNESS(h_##NAME)                                                                                          \
    {   INA(f32, b, 6); INA(f32, m, 16); INA(f32, junk, 6);                                                    \
        for (int i = 0; i < 3; i++) ASSUME(b[i] <= b[3 + i] && !(b[i] == -3.40282347e38f && b[3 + i] == 3.40282347e38f));   /* non-empty, not the infinite box (those are O3) */ \
        PIN;                                                                                                   \
        f32 r1[6], r2[6]; for (int i = 0; i < 6; i++) { r1[i] = 0; r2[i] = junk[i]; }                          \
        FA((void*)b, (void*)m, (void*)r1); FB((void*)b, (void*)m, (void*)r2);                                  \
        for (int i = 0; i < 6; i++) CHECK(same_f32(r1[i], r2[i]), "out-parameter overload writes exactly what the value-returning overload returns, independent of the previous contents of result"); \
        END; }
/* last column pinned so that each query has one branch structure; together the pins cover: affine; each single
   projective entry (the affine test must read all four entries); general w */
PAIR(transform_pair_affine, w_xformf, w_xform_outf, (m[3] = 0, m[7] = 0, m[11] = 0, m[15] = 1))
PAIR(transform_pair_p001, w_xformf, w_xform_outf, (m[7] = 0, m[11] = 0, m[15] = 1))
PAIR(transform_pair_0p01, w_xformf, w_xform_outf, (m[3] = 0, m[11] = 0, m[15] = 1))
PAIR(transform_pair_00p1, w_xformf, w_xform_outf, (m[3] = 0, m[7] = 0, m[15] = 1))
PAIR(transform_pair_000q, w_xformf, w_xform_outf, (m[3] = 0, m[7] = 0, m[11] = 0))
PAIR(transform_pair_general, w_xformf, w_xform_outf, (void)0)
PAIR(affine_pair, w_affinef, w_affine_outf, (void)0)

/* Bit-precise lattice obligation for the projective branch and the affine-detection test: linear part = identity,
 * last column one of (0,0,0,1), (1,0,0,1), (0,1,0,1), (0,0,1,1), (0,0,0,2), box corners on the integer lattice [-2,2]^3 with
 * w > 0 at every corner.  The result must contain the projected image of each of the eight corners and every bound
 * must be attained by one of them - for both overloads, whatever result held before. */
#define LATTICE(NAME, CALL, C0, C1, C2, C3)                                                                                   \
    HARNESS(h_##NAME)                                                                                          \
    {   INA(i8, bi, 6); INA(f32, junk, 6); u8 c[4] = { C0, C1, C2, C3 };                                      \
        f32 b[6], m[16], r[6];                                                                                 \
        for (int i = 0; i < 6; i++) { ASSUME(bi[i] >= -2 && bi[i] <= 2); b[i] = (f32)bi[i]; r[i] = junk[i]; }   \
        for (int i = 0; i < 3; i++) ASSUME(bi[i] <= bi[3 + i]);                                                \
        for (int i = 0; i < 16; i++) m[i] = (i % 5 == 0) ? 1.0f : 0.0f;                                        \
        m[3] = c[0]; m[7] = c[1]; m[11] = c[2]; m[15] = c[3];                                                  \
        CALL;                                                                                                  \
        int attained[6] = { 0, 0, 0, 0, 0, 0 };                                                                \
        for (int k = 0; k < 8; k++)                                                                            \
        {   f32 p[3]; for (int j = 0; j < 3; j++) p[j] = b[3 * ((k >> j) & 1) + j];                            \
            f32 w = p[0] * (f32)c[0] + p[1] * (f32)c[1] + p[2] * (f32)c[2] + (f32)c[3];                        \
            ASSUME(w > 0.0f);                                                                                  \
            for (int j = 0; j < 3; j++) { f32 q = p[j] / w; CHECK(r[j] <= q && q <= r[3 + j], "result contains the projected image of every corner"); \
                                          if (r[j] == q) attained[j] = 1; if (r[3 + j] == q) attained[3 + j] = 1; } } \
        for (int j = 0; j < 6; j++) CHECK(attained[j], "every bound of the result is attained by a corner image (tight)"); \
        END; }
#define BOTH(TAG, C0, C1, C2, C3) LATTICE(xform_lattice_value_##TAG, w_xformf((void*)b, (void*)m, (void*)r), C0, C1, C2, C3) \
                                  LATTICE(xform_lattice_outparam_##TAG, w_xform_outf((void*)b, (void*)m, (void*)r), C0, C1, C2, C3)
BOTH(0001, 0, 0, 0, 1) BOTH(1001, 1, 0, 0, 1) BOTH(0101, 0, 1, 0, 1) BOTH(0011, 0, 0, 1, 1) BOTH(0002, 0, 0, 0, 2)
