/* C13: Box / Interval are closed axis-aligned point sets.  One harness family, instantiated per (prefix P, element
 * type E, dimension N) by macro.  A box is 2N elements: min[0..N), max[0..N).
 * Representation invariant assumed for operations that start from "any box a history can reach":
 * either the canonical empty box (min = max(), max = lowest()) or min <= max on every axis. */
#include "verif.h"
#include GEN_H

#define DEFBOX(P, E, N, IN_E, LOWEST, MAXV, ISFLT, SUB, HALFSUM)                                                                  \
    static int P##_member(const E* b, const E* p) { for (int i = 0; i < N; i++) if (p[i] < b[i] || p[i] > b[N + i]) return 0; return 1; } \
    static int P##_valid(const E* b)                                                                                 \
    {   int canon = 1, ok = 1;                                                                                       \
        for (int i = 0; i < N; i++) { if (!(b[i] == MAXV && b[N + i] == LOWEST)) canon = 0; if (!(b[i] <= b[N + i])) ok = 0; } \
        return canon || ok; }                                                                                        \
    static int P##_nonan(const E* v, int n) { for (int i = 0; i < n; i++) if (v[i] != v[i] || (ISFLT && !(v[i] >= LOWEST && v[i] <= MAXV))) return 0; return 1; } /* floats: finite, non-NaN */    \
    HARNESS(h_##P##_empty_infinite)                                                                                  \
    {   INA(IN_E, p, N); INA(IN_E, junk, 2 * N);                                                                     \
        E b[2 * N], c[2 * N], d[2 * N];                                                                              \
        for (int i = 0; i < 2 * N; i++) { b[i] = junk[i]; c[i] = junk[i]; d[i] = junk[i]; }                          \
        ASSUME(P##_nonan(p, N));                                                                                     \
        w_##P##_ctor(b); w_##P##_make_empty(c); w_##P##_make_infinite(d);                                            \
        CHECK(!P##_member(b, p) && !w_##P##_intersects_pt(b, p), "default construction contains no point");         \
        CHECK(!P##_member(c, p) && !w_##P##_intersects_pt(c, p), "makeEmpty contains no point");                    \
        CHECK(P##_member(d, p) && w_##P##_intersects_pt(d, p), "makeInfinite contains every representable point");  \
        CHECK(w_##P##_is_empty(b) && w_##P##_is_empty(c) && !w_##P##_is_empty(d), "isEmpty of the canonical boxes"); \
        CHECK(w_##P##_is_infinite(d) && !w_##P##_is_infinite(c), "isInfinite of the canonical boxes");              \
        END; }                                                                                                       \
    HARNESS(h_##P##_intersects_pt)                                                                                   \
    {   INA(IN_E, b, 2 * N); INA(IN_E, p, N);                                                                        \
        ASSUME(P##_nonan(b, 2 * N) && P##_nonan(p, N));                                                              \
        CHECK((w_##P##_intersects_pt(b, p) != 0) == P##_member(b, p), "intersects(point) is membership min<=p<=max"); \
        END; }                                                                                                       \
    HARNESS(h_##P##_predicates)                                                                                      \
    {   INA(IN_E, b, 2 * N); INA(IN_E, p, N);                                                                        \
        ASSUME(P##_nonan(b, 2 * N) && P##_nonan(p, N));                                                              \
        int e = w_##P##_is_empty(b), v = w_##P##_has_volume(b), inf = w_##P##_is_infinite(b);                        \
        int anyinv = 0, allgt = 1, allinf = 1;                                                                       \
        for (int i = 0; i < N; i++) { if (b[N + i] < b[i]) anyinv = 1; if (!(b[N + i] > b[i])) allgt = 0; if (!(b[i] == LOWEST && b[N + i] == MAXV)) allinf = 0; } \
        CHECK((e != 0) == anyinv, "isEmpty <=> max < min on some axis");                                             \
        if (P##_member(b, p)) CHECK(!e, "a box with a member is not empty");                                         \
        if (!e) CHECK(P##_member(b, b), "a non-empty box contains its min corner");                                  \
        CHECK((v != 0) == allgt, "hasVolume <=> max > min on every axis");                                           \
        CHECK((inf != 0) == allinf, "isInfinite <=> [lowest, max] on every axis");                                   \
        END; }                                                                                                       \
    HARNESS(h_##P##_intersects_box)                                                                                  \
    {   INA(IN_E, a, 2 * N); INA(IN_E, b, 2 * N); INA(IN_E, p, N);                                                   \
        ASSUME(P##_nonan(a, 2 * N) && P##_nonan(b, 2 * N) && P##_nonan(p, N));                                       \
        ASSUME(P##_valid(a) && P##_valid(b));                                                                        \
        int r = w_##P##_intersects_box(a, b) != 0, s = w_##P##_intersects_box(b, a) != 0;                            \
        CHECK(r == s, "intersects(box) is symmetric");                                                               \
        if (P##_member(a, p) && P##_member(b, p)) CHECK(r, "boxes sharing the point p intersect");                   \
        if (r) { E w[N]; for (int i = 0; i < N; i++) w[i] = a[i] > b[i] ? a[i] : b[i];                               \
                 CHECK(P##_member(a, w) && P##_member(b, w), "intersecting boxes share the point max(a.min,b.min)"); } \
        END; }                                                                                                       \
    HARNESS(h_##P##_extend_pt)                                                                                       \
    {   INA(IN_E, b0, 2 * N); INA(IN_E, p, N); INA(IN_E, q, N);                                                      \
        ASSUME(P##_nonan(b0, 2 * N) && P##_nonan(p, N) && P##_nonan(q, N));                                          \
        ASSUME(P##_valid(b0));                                                                                       \
        E b[2 * N]; for (int i = 0; i < 2 * N; i++) b[i] = b0[i];                                                    \
        w_##P##_extend_pt(b, p);                                                                                     \
        CHECK(P##_member(b, p), "extendBy(p): result contains p");                                                   \
        if (P##_member(b0, q)) CHECK(P##_member(b, q), "extendBy(p): result contains every old member");            \
        int wasempty = 0; for (int i = 0; i < N; i++) if (b0[N + i] < b0[i]) wasempty = 1;                           \
        for (int i = 0; i < N; i++)                                                                                  \
        {   if (wasempty) CHECK(b[i] == p[i] && b[N + i] == p[i], "extendBy(p) of an empty box is the point box");   \
            else CHECK((b[i] == b0[i] || b[i] == p[i]) && (b[N + i] == b0[N + i] || b[N + i] == p[i]) && b[i] <= b0[i] && b[N + i] >= b0[N + i], "extendBy(p): every bound is attained (smallest box)"); } \
        CHECK(P##_valid(b), "representation invariant preserved");                                                   \
        END; }                                                                                                       \
    HARNESS(h_##P##_extend_box)                                                                                      \
    {   INA(IN_E, b0, 2 * N); INA(IN_E, o, 2 * N); INA(IN_E, q, N);                                                  \
        ASSUME(P##_nonan(b0, 2 * N) && P##_nonan(o, 2 * N) && P##_nonan(q, N));                                      \
        ASSUME(P##_valid(b0) && P##_valid(o));                                                                       \
        E b[2 * N]; for (int i = 0; i < 2 * N; i++) b[i] = b0[i];                                                    \
        w_##P##_extend_box(b, o);                                                                                    \
        if (P##_member(b0, q) || P##_member(o, q)) CHECK(P##_member(b, q), "extendBy(box): result contains both sets"); \
        for (int i = 0; i < N; i++)                                                                                  \
            CHECK((b[i] == b0[i] || b[i] == o[i]) && (b[N + i] == b0[N + i] || b[N + i] == o[N + i]) && b[i] <= b0[i] && b[i] <= o[i] && b[N + i] >= b0[N + i] && b[N + i] >= o[N + i], "extendBy(box): every bound is attained (smallest box)"); \
        CHECK(P##_valid(b), "representation invariant preserved");                                                   \
        END; }                                                                                                       \
    HARNESS(h_##P##_size_center_axis)                                                                                \
    {   INA(IN_E, b, 2 * N);                                                                                         \
        ASSUME(P##_nonan(b, 2 * N));                                                                                 \
        if (!ISFLT) for (int i = 0; i < N; i++) ASSUME(b[i] >= LOWEST / 2 && b[i] <= MAXV / 2 && b[N + i] >= LOWEST / 2 && b[N + i] <= MAXV / 2); \
        E s[N], c[N]; w_##P##_size(b, s); w_##P##_center(b, c);                                                      \
        int e = 0; for (int i = 0; i < N; i++) if (b[N + i] < b[i]) e = 1;                                           \
        for (int i = 0; i < N; i++)                                                                                  \
        {   CHECK(e ? s[i] == 0 : (s[i] == SUB(b[N + i], b[i]) || (ISFLT && s[i] != s[i])), "size == max-min (0 for an empty box)");             \
            CHECK(c[i] == HALFSUM(b[N + i], b[i]) || c[i] == HALFSUM(b[i], b[N + i]) || c[i] == HALFSUM##2(b[N + i], b[i]) || c[i] == HALFSUM##2(b[i], b[N + i]) || (ISFLT && c[i] != c[i]), "center == (max+min)/2"); }                                 \
        END; }                                                                                                       \
    HARNESS(h_##P##_major_axis)                                                                                      \
    {   INA(IN_E, b, 2 * N);                                                                                         \
        ASSUME(P##_nonan(b, 2 * N));                                                                                 \
        if (!ISFLT) for (int i = 0; i < N; i++) ASSUME(b[i] >= LOWEST / 2 && b[i] <= MAXV / 2 && b[N + i] >= LOWEST / 2 && b[N + i] <= MAXV / 2); \
        E s[N]; w_##P##_size(b, s);                                                                                  \
        unsigned m = w_##P##_major_axis(b);                                                                          \
        CHECK(m < N, "majorAxis in range");                                                                          \
        for (int i = 0; i < N; i++) CHECK(!(s[i] > s[m]) && (i >= (int)m || s[i] < s[m]), "majorAxis is the first axis of greatest size()"); \
        END; }

#define ISUB(a, b) ((i32)((a) - (b)))
#define IHS(a, b) ((i32)((i32)((a) + (b)) / 2))
#define IHS2(a, b) IHS(a, b)
#define SSUB(a, b) ((i16)((a) - (b)))
#define SHS(a, b) ((i16)((i16)((a) + (b)) / 2))
#define SHS2(a, b) SHS(a, b)
#if defined(__CPROVER__) && defined(UF_ARITH)
#define FSUB(a, b) __CPROVER_uninterpreted_fsub_float(a, b)
#define FHS(a, b) __CPROVER_uninterpreted_fdiv_float(verif_uf_fadd_float(a, b), 2.0f)
#define FHS2(a, b) verif_uf_fmul_float(verif_uf_fadd_float(a, b), 0.5f)
#else
#define FSUB(a, b) ((a) - (b))
#define FHS(a, b) (((a) + (b)) / 2.0f)
#define FHS2(a, b) (((a) + (b)) * 0.5f)
#endif
#define DEFEQ(P, G, E, N, IN_E)                                                                                      \
    HARNESS(h_##P##_equals_generic)                                                                                  \
    {   INA(IN_E, a, 2 * N); INA(IN_E, o, 2 * N); INA(IN_E, p, N);                                                   \
        ASSUME(P##_nonan(a, 2 * N) && P##_nonan(o, 2 * N) && P##_nonan(p, N));                                       \
        E x[2 * N], y[2 * N], sx[N], sy[N];                                                                          \
        CHECK(w_##P##_intersects_pt(a, p) == w_##G##_intersects_pt(a, p), "intersects(point): specialisation == generic"); \
        CHECK(w_##P##_intersects_box(a, o) == w_##G##_intersects_box(a, o), "intersects(box): specialisation == generic"); \
        CHECK(w_##P##_is_empty(a) == w_##G##_is_empty(a) && w_##P##_has_volume(a) == w_##G##_has_volume(a) && w_##P##_is_infinite(a) == w_##G##_is_infinite(a), "predicates: specialisation == generic"); \
        CHECK(w_##P##_major_axis(a) == w_##G##_major_axis(a), "majorAxis: specialisation == generic");               \
        for (int i = 0; i < 2 * N; i++) { x[i] = a[i]; y[i] = a[i]; }                                                \
        w_##P##_extend_pt(x, p); w_##G##_extend_pt(y, p);                                                            \
        for (int i = 0; i < 2 * N; i++) CHECK(memcmp(&x[i], &y[i], sizeof(E)) == 0, "extendBy(point): specialisation == generic"); \
        for (int i = 0; i < 2 * N; i++) { x[i] = a[i]; y[i] = a[i]; }                                                \
        w_##P##_extend_box(x, o); w_##G##_extend_box(y, o);                                                          \
        for (int i = 0; i < 2 * N; i++) CHECK(memcmp(&x[i], &y[i], sizeof(E)) == 0, "extendBy(box): specialisation == generic"); \
        w_##P##_make_empty(x); w_##G##_make_empty(y);                                                                \
        for (int i = 0; i < 2 * N; i++) CHECK(memcmp(&x[i], &y[i], sizeof(E)) == 0, "makeEmpty: specialisation == generic"); \
        w_##P##_make_infinite(x); w_##G##_make_infinite(y);                                                          \
        for (int i = 0; i < 2 * N; i++) CHECK(memcmp(&x[i], &y[i], sizeof(E)) == 0, "makeInfinite: specialisation == generic"); \
        END; }

DEFBOX(b3i, i32, 3, i32, (-2147483647 - 1), 2147483647, 0, ISUB, IHS)
DEFBOX(b2i, i32, 2, i32, (-2147483647 - 1), 2147483647, 0, ISUB, IHS)
DEFBOX(b4i, i32, 4, i32, (-2147483647 - 1), 2147483647, 0, ISUB, IHS)
DEFBOX(g3i, i32, 3, i32, (-2147483647 - 1), 2147483647, 0, ISUB, IHS)
DEFBOX(b3s, i16, 3, i16, (-32768), 32767, 0, SSUB, SHS)
DEFBOX(ivi, i32, 1, i32, (-2147483647 - 1), 2147483647, 0, ISUB, IHS)
DEFBOX(b3f, f32, 3, f32, (-3.40282347e38f), 3.40282347e38f, 1, FSUB, FHS)
DEFBOX(b2f, f32, 2, f32, (-3.40282347e38f), 3.40282347e38f, 1, FSUB, FHS)
DEFBOX(ivf, f32, 1, f32, (-3.40282347e38f), 3.40282347e38f, 1, FSUB, FHS)
DEFEQ(b3i, g3i, i32, 3, i32)
DEFEQ(b2i, g2i, i32, 2, i32)
DEFEQ(b3f, g3f, f32, 3, f32)
