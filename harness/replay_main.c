/* native replay driver: reads "lhs hexvalue" lines, runs HFUNC, exit 1 iff a CHECK failed */
#include <stdio.h>
#include <stdlib.h>
#include <string.h>
#include <stdint.h>
int verif_fail;
static struct { char name[96]; unsigned long long v; } tab[4096];
static int ntab;
void verif_in(const char* name, int idx, void* p, int size)
{
    char key[128];
    if (idx >= 0) snprintf(key, sizeof key, "%s[%d]", name, idx); else snprintf(key, sizeof key, "%s", name);
    unsigned long long v = 0;
    for (int i = 0; i < ntab; i++) if (!strcmp(tab[i].name, key)) { v = tab[i].v; break; }
    memcpy(p, &v, size); /* little endian */
}
void HFUNC(void);
int main(int argc, char** argv)
{
    FILE* f = fopen(argv[1], "r");
    if (!f) { perror("input"); return 2; }
    char nm[96]; unsigned long long v;
    while (ntab < 4096 && fscanf(f, "%95s %llx", nm, &v) == 2) { strcpy(tab[ntab].name, nm); tab[ntab].v = v; ntab++; }
    fclose(f);
    HFUNC();
    printf(verif_fail ? "REPLAY-RESULT violated\n" : "REPLAY-RESULT holds\n");
    return verif_fail;
}
