/* C02: every back-end / language mode returns identical bits.
 * This TU includes half.h AS C in the bit-shift configuration (the reference path, proved == ref_h2f/ref_f2h in
 * C01) and compares it with: the generator toFloat.cpp::halfToFloat (IR->C), the C++14/17/20 compilations of the
 * same header (IR->C), the C++ table build with an arbitrary table installed. */
#include "verif.h"
#define IMATH_HALF_NO_LOOKUP_TABLE
#include "half.h"
#include "half_ref.h"
#include GEN_H

#ifdef HAVE_GENERATOR
HARNESS(h_generator)
{   /* C02-O2: the table generator computes the bit-shift result for every i (while loop: <= 10 iterations) */
    IN(u16, i);
    u32 g = _Z11halfToFloatt(i);
    CHECK(g == f32_bits(imath_half_to_float(i)), "toFloat.cpp::halfToFloat(i) == bit-shift imath_half_to_float(i)");
    CHECK(g == ref_h2f(i), "toFloat.cpp::halfToFloat(i) == denoted value");
    END;
}
#endif

#ifdef HAVE_CXX
HARNESS(h_cxx_f2h)
{   /* C02-O3 */
    IN(u32, fb);
    CHECK(w_f2h(bits_f32(fb)) == imath_float_to_half(bits_f32(fb)), "C++ compilation of imath_float_to_half == C compilation, all 2^32 inputs");
    END;
}
HARNESS(h_cxx_h2f)
{
    IN(u16, h);
    CHECK(f32_bits(w_h2f(h)) == f32_bits(imath_half_to_float(h)), "C++ compilation of imath_half_to_float (bit-shift) == C compilation, all 2^16 inputs");
    END;
}
#endif

#ifdef HAVE_CXX_TABLE
/* the generated C refers to the external pointer imath_half_to_float_table; install an arbitrary table */
#ifdef __CPROVER__
extern const struct SYMTAB_T symtab[1 << 16];
#else
struct SYMTAB_T symtab[1 << 16];
#endif
HARNESS(h_cxx_table_wiring)
{
    IN(u16, h);
    G_imath_half_to_float_table = (void*)symtab;
#ifndef __CPROVER__
    IN(u32, entry); memcpy(&symtab[h], &entry, 4);
#endif
    u32 e; memcpy(&e, &symtab[h], 4);
    CHECK(f32_bits(w_h2f(h)) == e, "C++ table build returns entry h of whatever table is installed");
    END;
}
#endif
