/* C02-O4: half.h compiled as C with __F16C__ defined and the two intrinsics replaced by their SDM model
 * (stubs/f16c/x86intrin.h).  Decides the wiring only: with a correct instruction, the F16C build returns the
 * software result, except for NaN payloads (NaN-ness and sign must agree). */
#include "verif.h"
#include "half_ref.h"
int verif_f16c_bad_imm;
uint32_t verif_model_h2f_bits(uint16_t h) { return ref_h2f(h); }
uint16_t verif_model_f2h_bits(uint32_t f) { return ref_f2h(f); }
#define __F16C__ 1
#include "half.h"
HARNESS(h_f16c_f2h)
{
    IN(u32, fb);
    u16 r = imath_float_to_half(bits_f32(fb));
    u16 s = ref_f2h(fb);
    CHECK(!verif_f16c_bad_imm, "rounding immediate selects round-to-nearest");
    int nan = ((fb & 0x7f800000u) == 0x7f800000u) && (fb & 0x7fffffu);
    if (!nan) CHECK(r == s, "F16C build float->half == software path (non-NaN)");
    else CHECK(((r >> 10) & 31) == 31 && (r & 0x3ff) && (r & 0x8000) == (s & 0x8000), "NaN stays NaN with the same sign");
    END;
}
HARNESS(h_f16c_h2f)
{
    IN(u16, h);
    f32 f = imath_half_to_float(h);
    int nan = ((h >> 10) & 31) == 31 && (h & 0x3ff);
    if (!nan) CHECK(f32_bits(f) == ref_h2f(h), "F16C build half->float == software path (non-NaN)");
    else CHECK(f != f && (f32_bits(f) >> 31) == (u32)(h >> 15), "NaN stays NaN with the same sign");
    END;
}
