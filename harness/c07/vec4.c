/* C07: throwing and non-throwing variants agree.  FP arithmetic is uninterpreted on both sides (identical symbols),
 * comparisons, abs and the guards are exact: whenever the checked form returns, every output bit equals the unchecked
 * form's; the thrown type is the documented one. */
#include "verif.h"
#include GEN_H

HARNESS(h_v3_from_v4)
{
    INA(f32, v, 4);
    f32 a[3], b[3] = { 7, 8, 9 };
    w_v3_from_v4((void*)v, (void*)a);
    __verif_exc = 0; w_v3_from_v4_exc((void*)v, (void*)b); int ex = __verif_exc; __verif_exc = 0;
    CHECK(ex == 0 || ex == VERIF_EXC__ZTISt12domain_error, "Vec3(Vec4, InfException) throws std::domain_error only");
    if (!ex) for (int i = 0; i < 3; i++) CHECK(same_f32(a[i], b[i]), "Vec3(Vec4,InfException) == Vec3(Vec4) when it returns");
    /* the guard, as documented: |w| < 1 and some |component| >= max * |w| */
    f32 aw = v[3] >= 0.0f ? v[3] : -v[3];
    if (!(aw < 1.0f)) CHECK(!ex, "never throws when |w| >= 1");
    END;
}

