/* C07: Frustum ...Exc methods vs their unchecked forms (float). */
#include "verif.h"
#include GEN_H
#define DOM VERIF_EXC__ZTISt12domain_error

HARNESS(h_fr_projection)
{
    INA(f32, p, 6); IN(u8, o);
    f32 a[16], b[16]; for (int i = 0; i < 16; i++) { a[i] = 7; b[i] = 7; }
    w_fr_proj(p, o & 1, (void*)a);
    __verif_exc = 0; w_fr_proj_exc(p, o & 1, (void*)b); int ex = __verif_exc; __verif_exc = 0;
    CHECK(ex == 0 || ex == DOM, "projectionMatrixExc throws std::domain_error only");
    if (!ex) for (int i = 0; i < 16; i++) CHECK(same_f32(a[i], b[i]), "projectionMatrixExc == projectionMatrix whenever it returns");
    END;
}
HARNESS(h_fr_point_to_screen)
{
    INA(f32, p, 6); IN(u8, o); INA(f32, pt, 3);
    f32 a[2] = { 7, 7 }, b[2] = { 7, 7 };
    w_fr_p2s(p, o & 1, (void*)pt, (void*)a);
    __verif_exc = 0; w_fr_p2s_exc(p, o & 1, (void*)pt, (void*)b); int ex = __verif_exc; __verif_exc = 0;
    CHECK(ex == 0 || ex == DOM, "projectPointToScreenExc throws std::domain_error only");
    if (!ex) CHECK(same_f32(a[0], b[0]) && same_f32(a[1], b[1]), "projectPointToScreenExc == projectPointToScreen whenever it returns");
    END;
}
#define SCALAR(NAME, CALLA, CALLB, DECLS)                                                                     \
    HARNESS(h_fr_##NAME)                                                                                      \
    {   INA(f32, p, 6); IN(u8, o); DECLS                                                                      \
        f32 a = CALLA;                                                                                        \
        __verif_exc = 0; f32 b = CALLB; int ex = __verif_exc; __verif_exc = 0;                                \
        CHECK(ex == 0 || ex == DOM, #NAME "Exc throws std::domain_error only");                               \
        if (!ex) CHECK(same_f32(a, b), #NAME "Exc == " #NAME " whenever it returns");                         \
        END; }
SCALAR(normalizedZToDepth, w_fr_nz2d(p, o & 1, z), w_fr_nz2d_exc(p, o & 1, z), IN(f32, z);)
SCALAR(screenRadius, w_fr_sr(p, o & 1, (void*)pt, r), w_fr_sr_exc(p, o & 1, (void*)pt, r), INA(f32, pt, 3); IN(f32, r);)
SCALAR(worldRadius, w_fr_wr(p, o & 1, (void*)pt, r), w_fr_wr_exc(p, o & 1, (void*)pt, r), INA(f32, pt, 3); IN(f32, r);)
SCALAR(aspect, w_fr_aspect(p, o & 1), w_fr_aspect_exc(p, o & 1), )
SCALAR(ZToDepth, w_fr_z2d(p, o & 1, z, zmin, zmax), w_fr_z2d_exc(p, o & 1, z, zmin, zmax), IN(i64, z); IN(i64, zmin); IN(i64, zmax); ASSUME(zmax < 0x7fffffffffffffffL);)
HARNESS(h_fr_ZToDepth_zero_range)
{   /* the documented reason: zmax == zmin is rejected by the checked form (int zdiff == 0), and only then at this level */
    INA(f32, p, 6); IN(u8, o); IN(i64, z); IN(i64, zmin); IN(i64, zmax); ASSUME(zmax < 0x7fffffffffffffffL);
    __verif_exc = 0; (void)w_fr_z2d_exc(p, o & 1, z, zmin, zmax); int ex = __verif_exc; __verif_exc = 0;
    if ((int)(zmax - zmin) == 0) CHECK(ex == DOM, "ZToDepthExc throws std::domain_error when the z range is empty");
    END;
}
HARNESS(h_fr_DepthToZ)
{
    INA(f32, p, 6); IN(u8, o); IN(f32, depth); IN(i64, zmin); IN(i64, zmax);
    i64 a = w_fr_d2z(p, o & 1, depth, zmin, zmax);
    __verif_exc = 0; i64 b = w_fr_d2z_exc(p, o & 1, depth, zmin, zmax); int ex = __verif_exc; __verif_exc = 0;
    CHECK(ex == 0 || ex == DOM, "DepthToZExc throws std::domain_error only");
    if (!ex) CHECK(a == b, "DepthToZExc == DepthToZ whenever it returns");
    END;
}
HARNESS(h_fr_setfov)
{
    INA(f32, p, 6); IN(u8, o); INA(f32, a, 5);
    f32 x[7], y[7]; for (int i = 0; i < 7; i++) { x[i] = 7; y[i] = 7; }
    w_fr_setfov(p, o & 1, a, x);
    __verif_exc = 0; w_fr_setfov_exc(p, o & 1, a, y); int ex = __verif_exc; __verif_exc = 0;
    CHECK(ex == 0 || ex == DOM, "setExc throws std::domain_error only");
    CHECK((ex != 0) == (a[2] != 0 && a[3] != 0), "setExc throws exactly when both fields of view are non-zero (the documented reason)");
    if (!ex) for (int i = 0; i < 7; i++) CHECK(same_f32(x[i], y[i]), "setExc leaves exactly the frustum set() leaves whenever it returns");
    END;
}
