/* C07: throwing and non-throwing variants agree.  FP arithmetic is uninterpreted on both sides (identical symbols),
 * comparisons, abs and the guards are exact: whenever the checked form returns, every output bit equals the unchecked
 * form's; the thrown type is the documented one. */
#include "verif.h"
#include GEN_H

/* PINMASK (optional): bit i set <=> entry i stays symbolic; the other entries are pinned to the identity's.  Pinned families make the
   4x4 pairs cheap enough for the quick tier while still covering every routing decision (affine test, pivot search) on the symbolic entries. */
#ifdef PINMASK
#define PIN(m, DIM) for (int i_ = 0; i_ < DIM * DIM; i_++) if (!(((unsigned)PINMASK >> i_) & 1u)) m[i_] = (i_ / DIM == i_ % DIM) ? 1.0f : 0.0f;
#else
#define PIN(m, DIM)
#endif
#define MPAIR(NAME, DIM, FA, FB, EXCID)                                                                       \
    HARNESS(h_##NAME)                                                                                         \
    {   INA(f32, m, DIM * DIM); PIN(m, DIM)                                                                   \
        f32 a[DIM * DIM], b0[DIM * DIM], b1[DIM * DIM];                                                       \
        for (int i = 0; i < DIM * DIM; i++) { a[i] = 7; b0[i] = 7; b1[i] = 7; }                               \
        FA((void*)m, (void*)a);                                                                               \
        __verif_exc = 0; FB((void*)m, (void*)b0, 0); CHECK(__verif_exc == 0, "singExc=false never throws");   \
        FB((void*)m, (void*)b1, 1); int ex = __verif_exc; __verif_exc = 0;                                    \
        CHECK(ex == 0 || ex == EXCID, "throws std::invalid_argument only");                                   \
        for (int i = 0; i < DIM * DIM; i++)                                                                   \
        {   CHECK(same_f32(a[i], b0[i]), "f() == f(false), every entry");                                     \
            if (!ex) CHECK(same_f32(a[i], b1[i]), "f(true) == f() whenever it returns");                      \
            else CHECK(a[i] == ((i / DIM == i % DIM) ? 1.0f : 0.0f), "f(true) throws only where f() returns the identity (singular outcome)"); } \
        END; }
#define INVARG VERIF_EXC__ZTISt16invalid_argument
MPAIR(inverse22, 2, w_inv22f, w_invb22f, INVARG)
MPAIR(inverse33, 3, w_inv33f, w_invb33f, INVARG)
MPAIR(inverse44, 4, w_inv44f, w_invb44f, INVARG)
MPAIR(invert22, 2, w_invert22f, w_invertb22f, INVARG)
MPAIR(invert33, 3, w_invert33f, w_invertb33f, INVARG)
MPAIR(invert44, 4, w_invert44f, w_invertb44f, INVARG)
MPAIR(gjInverse33, 3, w_gjinv33f, w_gjinvb33f, INVARG)
MPAIR(gjInverse44, 4, w_gjinv44f, w_gjinvb44f, INVARG)
MPAIR(gjInvert33, 3, w_gjinvert33f, w_gjinvertb33f, INVARG)
MPAIR(gjInvert44, 4, w_gjinvert44f, w_gjinvertb44f, INVARG)

/* in-place forms leave exactly what the value-returning forms return (C06-O3) */
#define INPLACE(NAME, DIM, FA, FB)                                                                            \
    HARNESS(h_##NAME)                                                                                         \
    {   INA(f32, m, DIM * DIM); PIN(m, DIM)                                                                   \
        f32 a[DIM * DIM], b[DIM * DIM];                                                                       \
        for (int i = 0; i < DIM * DIM; i++) { a[i] = 7; b[i] = 7; }                                           \
        FA((void*)m, (void*)a); FB((void*)m, (void*)b);                                                       \
        for (int i = 0; i < DIM * DIM; i++) CHECK(same_f32(a[i], b[i]), "in-place form == value-returning form, every entry"); \
        END; }
INPLACE(invert_eq_inverse22, 2, w_inv22f, w_invert22f)
INPLACE(invert_eq_inverse33, 3, w_inv33f, w_invert33f)
INPLACE(invert_eq_inverse44, 4, w_inv44f, w_invert44f)
INPLACE(gjInvert_eq_gjInverse33, 3, w_gjinv33f, w_gjinvert33f)
INPLACE(gjInvert_eq_gjInverse44, 4, w_gjinv44f, w_gjinvert44f)
