/* C10 engine B: extractQuat(q.toMatrix44()) on IEEE floats for quaternions a hair off a coordinate axis (w = 0: rotation by pi,
   trace <= 0 branches).  q = (0; e_major + eps * e_minor): |q|^2 = 1 + eps^2, within 2^-12 of unit.  The claim is the property's own
   statement at single-precision tolerance: the result is q or -q to within 1e-4 in every component. */
#include "verif.h"
#include GEN_H
#ifndef MAJOR
#define MAJOR 0
#endif
#ifndef MINOR
#define MINOR 2
#endif
static inline f32 fabs32(f32 x) { return x < 0 ? -x : x; }
HARNESS(h_extract_near_axis)
{
    IN(f32, eps); IN(u8, sgn);
    ASSUME(eps >= 0x1p-12f && eps <= 0x1p-6f);
    f32 q[4] = { 0.0f, 0.0f, 0.0f, 0.0f };          /* r, v.x, v.y, v.z */
    q[1 + MAJOR] = (sgn & 1) ? -1.0f : 1.0f;
    q[1 + MINOR] = (sgn & 2) ? -eps : eps;
    f32 r[4] = { 7, 7, 7, 7 };
    w_q_extractf((void*)q, (void*)r);
    f32 dp = 0, dm = 0;
    for (int i = 0; i < 4; i++) {
        CHECK(r[i] == r[i], "extractQuat returns numbers");
        f32 a = fabs32(r[i] - q[i]), b = fabs32(r[i] + q[i]);
        if (a > dp) dp = a; if (b > dm) dm = b; }
    CHECK(dp <= 1e-4f || dm <= 1e-4f, "extractQuat(q.toMatrix44()) is q or -q (every component within 1e-4)");
    END;
}
