/* reference oracles for binary16 conversion, written from the IEEE-754 definition (value based) */
#ifndef HALF_REF_H
#define HALF_REF_H
#include "verif.h"
/* ---------- reference 1: value-based round-to-nearest-even, written from the IEEE-754 definition ---------- */
static u16 ref_f2h(u32 fb)
{
    u16 sign = (u16)((fb >> 16) & 0x8000u);
    u32 ex = (fb >> 23) & 0xffu, man = fb & 0x7fffffu;
    if (ex == 255)
    {
        if (man == 0) return sign | 0x7c00u;
        u16 p = (u16)(man >> 13);          /* top ten payload bits */
        return sign | 0x7c00u | (p ? p : 1);
    }
    if (ex == 0) return sign;              /* float subnormals (< 2^-126) are far below 2^-25 */
    int ue = (int)ex - 127;                /* value = M * 2^(ue-23), M in [2^23, 2^24) */
    u32 M = man | 0x800000u;
    int q = ue < -14 ? -24 : ue - 10;      /* exponent of one binary16 ulp at this magnitude */
    int s = ue - 23 - q;                   /* value = M * 2^s ulps, s <= -13 */
    s = -s;                                /* shift right by s (13 for normal results) */
    if (s > 25) return sign;               /* value < 2^-26 ulp-halves: rounds to zero */
    u32 quo = M >> s, rem = M & ((1u << s) - 1u), halfway = 1u << (s - 1);
    if (rem > halfway || (rem == halfway && (quo & 1u))) quo++;
    if (ue < -14) return sign | (u16)quo;  /* subnormal (quo==1024 is the smallest normal) */
    u32 bits = ((u32)(ue + 15) << 10) + (quo - 1024u);   /* carry of quo==2048 bumps the exponent */
    if (bits >= 0x7c00u) return sign | 0x7c00u;          /* overflow to infinity */
    return sign | (u16)bits;
}

static u32 ref_h2f(u16 h)
{
    u32 sign = (u32)(h & 0x8000u) << 16;
    u32 e = (h >> 10) & 31u, m = h & 0x3ffu;
    if (e == 31) return sign | 0x7f800000u | (m << 13);     /* inf, NaN keeps payload */
    if (e == 0)
    {                                                       /* value = m * 2^-24, exact in float */
        f32 v = (f32)m * 0x1p-24f;
        return sign | f32_bits(v);
    }
    f32 v = (f32)(1024u + m) * bits_f32((u32)(e - 25 + 127) << 23);   /* (1024+m) * 2^(e-25), exact */
    return sign | f32_bits(v);
}

#endif
