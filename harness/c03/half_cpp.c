/* Engine B: class half (C++), IR -> C.  GEN_H is the generated header of wrappers/half.cpp.
 * In the uf build (-DUF_H2F=..., -DUF_F2H=...) the two C conversion functions are uninterpreted callees:
 * the obligations then say "the C++ member forwards to exactly f2h(h2f(a) op rhs)", which together with
 * C01 (the conversions themselves, all bit patterns) gives the arithmetic claim. */
#include "verif.h"
#include "half_ref.h"
#include GEN_H

#if defined(__CPROVER__) && defined(UF_H2F)
f32 UF_H2F(u16);
u16 UF_F2H(f32);
#define H2F(x) UF_H2F(x)
#define F2H(x) UF_F2H(x)
#else
#define H2F(x) w_half_cast(x)
#define F2H(x) w_half_ctor(x)
#endif
/* -DUF_ARITH: the four float operations are uninterpreted too (same symbols as in the generated C), so that the
   obligation is purely "same operation applied to the same operands" (a float multiplier/divider miter does not
   finish in SAT); operand order: both orders accepted for the commutative ones */
#if defined(__CPROVER__) && defined(UF_ARITH)
#define OP_add(a, b) verif_uf_fadd_float(a, b)
#define OP_sub(a, b) __CPROVER_uninterpreted_fsub_float(a, b)
#define OP_mul(a, b) verif_uf_fmul_float(a, b)
#define OP_div(a, b) __CPROVER_uninterpreted_fdiv_float(a, b)
#else
#define OP_add(a, b) ((a) + (b))
#define OP_sub(a, b) ((a) - (b))
#define OP_mul(a, b) ((a) * (b))
#define OP_div(a, b) ((a) / (b))
#endif

/* ---- C01-O6: the C++ spellings forward to the C functions with the same argument ---- */
HARNESS(h_ctor_forwards)
{
    IN(u32, fb); IN(u16, old);
    f32 f = bits_f32(fb);
    CHECK(w_half_ctor(f) == F2H(f), "half(float).bits() == imath_float_to_half(f)");
    CHECK(w_half_assign(old, f) == F2H(f), "half::operator=(float) == imath_float_to_half(f)");
    END;
}
HARNESS(h_cast_forwards)
{
    IN(u16, b);
    CHECK(f32_bits(w_half_cast(b)) == f32_bits(H2F(b)), "float(half) == imath_half_to_float(bits)");
    END;
}
/* exact (no UF): constructor against the reference, all 2^32 floats */
HARNESS(h_ctor_exact)
{
    IN(u32, fb); IN(u16, old);
    CHECK(w_half_ctor(bits_f32(fb)) == ref_f2h(fb), "half(float).bits() == RNE reference");
    CHECK(w_half_assign(old, bits_f32(fb)) == ref_f2h(fb), "half::operator=(float) == RNE reference");
    END;
}
/* exact through the linked real table, one exponent/sign slice per query */
#define CSL(k) HARNESS(h_cast_exact_##k) { IN(u16, b); ASSUME((unsigned)(b >> 10) == k); CHECK(f32_bits(w_half_cast(b)) == ref_h2f(b), "float(half) == denoted value (real table)"); END; }
CSL(0) CSL(1) CSL(2) CSL(3) CSL(4) CSL(5) CSL(6) CSL(7) CSL(8) CSL(9) CSL(10) CSL(11) CSL(12) CSL(13) CSL(14) CSL(15)
CSL(16) CSL(17) CSL(18) CSL(19) CSL(20) CSL(21) CSL(22) CSL(23) CSL(24) CSL(25) CSL(26) CSL(27) CSL(28) CSL(29) CSL(30) CSL(31)
CSL(32) CSL(33) CSL(34) CSL(35) CSL(36) CSL(37) CSL(38) CSL(39) CSL(40) CSL(41) CSL(42) CSL(43) CSL(44) CSL(45) CSL(46) CSL(47)
CSL(48) CSL(49) CSL(50) CSL(51) CSL(52) CSL(53) CSL(54) CSL(55) CSL(56) CSL(57) CSL(58) CSL(59) CSL(60) CSL(61) CSL(62) CSL(63)

/* ---- C03-O1: compound arithmetic == f2h(h2f(a) op rhs), all operand patterns ---- */
#define ARITH(name, OP, COMM)                                                                                  \
    HARNESS(h_##name##_h)                                                                                      \
    {                                                                                                          \
        IN(u16, a); IN(u16, b);                                                                                \
        u16 r = w_half_##name##_h(a, b);                                                                       \
        f32 fa = H2F(a), fb = H2F(b);                                                                          \
        CHECK(r == F2H(OP_##name(fa, fb)) || (COMM && r == F2H(OP_##name(fb, fa))), "half " #OP "= half == f2h(h2f(a) " #OP " h2f(b))"); \
        END;                                                                                                   \
    }                                                                                                          \
    HARNESS(h_##name##_f)                                                                                      \
    {                                                                                                          \
        IN(u16, a); IN(u32, fbits);                                                                            \
        f32 f = bits_f32(fbits);                                                                               \
        u16 r = w_half_##name##_f(a, f);                                                                       \
        f32 fa = H2F(a);                                                                                       \
        CHECK(r == F2H(OP_##name(fa, f)) || (COMM && r == F2H(OP_##name(f, fa))), "half " #OP "= float == f2h(h2f(a) " #OP " f)"); \
        END;                                                                                                   \
    }
ARITH(add, +, 1)
ARITH(sub, -, 0)
ARITH(mul, *, 1)
ARITH(div, /, 0)

/* ---- C03-O2 ---- */
HARNESS(h_neg)
{
    IN(u16, b);
    CHECK(w_half_neg(b) == (u16)(b ^ 0x8000u), "unary minus flips only the sign bit");
    END;
}

/* ---- C03-O3: classification ---- */
HARNESS(h_class)
{
    IN(u16, b);
    u32 c = w_half_class(b);
    int fin = c & 1, nrm = (c >> 1) & 1, den = (c >> 2) & 1, zer = (c >> 3) & 1, nan = (c >> 4) & 1, inf = (c >> 5) & 1, neg = (c >> 6) & 1;
    CHECK(zer + nrm + den + inf + nan == 1, "exactly one of zero/normalized/denormalized/infinity/NaN");
    CHECK(fin == (zer || nrm || den), "isFinite == zero|normalized|denormalized");
    CHECK(neg == ((b >> 15) & 1), "isNegative == sign bit");
    /* agreement with the float classification of the value the pattern denotes (ref_h2f == real conversion by C01) */
    f32 v = bits_f32(ref_h2f(b));
    CHECK(nan == (v != v), "isNan == isnan(float(h))");
    CHECK(inf == (v == v && !fin_f32(v)), "isInfinity == isinf(float(h))");
    CHECK(zer == (v == 0.0f), "isZero == (float(h) == 0)");
    CHECK(nrm == (fin_f32(v) && fabsf(v) >= 0x1p-14f), "isNormalized == finite and |v| >= 2^-14");
    CHECK(den == (v != 0.0f && fabsf(v) < 0x1p-14f), "isDenormalized == 0 < |v| < 2^-14");
    CHECK(neg == (int)(f32_bits(v) >> 31), "isNegative == signbit(float(h))");
    END;
}

/* ---- C03-O4: limits against the conversion's actual behaviour ---- */
HARNESS(h_limits)
{
    IN(u16, b);            /* arbitrary pattern to compare the extremes against */
    f32 v = bits_f32(ref_h2f(b));
    int finite = fin_f32(v);
    u16 mx = w_half_limit(1), mn = w_half_limit(0), lo = w_half_limit(2), eps = w_half_limit(3), dmin = w_half_limit(8);
    f32 fmx = bits_f32(ref_h2f(mx)), fmn = bits_f32(ref_h2f(mn)), fdm = bits_f32(ref_h2f(dmin));
    if (finite) CHECK(v <= fmx && v >= -fmx, "max() >= every finite half, lowest() <= every finite half");
    CHECK(lo == (u16)(mx ^ 0x8000u), "lowest() == -max()");
    CHECK(fin_f32(fmx), "max() is finite");
    if (finite && v > 0) CHECK(v >= fdm, "denorm_min() is the smallest positive half");
    if (finite && fabsf(v) >= 0x1p-14f) CHECK(fabsf(v) >= fmn, "min() <= every normalized magnitude");
    CHECK(fmn == 0x1p-14f && ((mn >> 10) & 31) == 1 && (mn & 0x3ff) == 0, "min() is the smallest normal");
    CHECK(dmin == 1, "denorm_min() pattern 0x0001");
    /* epsilon: gap above 1.0 */
    CHECK(bits_f32(ref_h2f(eps)) == bits_f32(ref_h2f(0x3c01)) - 1.0f, "epsilon() == next-above-1.0 minus 1.0");
    CHECK(w_half_limit(4) == 0x3800, "round_error() == 0.5");
    CHECK(w_half_limit(5) == 0x7c00 && w_half_limit(9) == 0x7c00 && w_half_limit(10) == 0xfc00, "infinity patterns");
    { u16 q = w_half_limit(6), s = w_half_limit(7);
      CHECK(((q >> 10) & 31) == 31 && (q & 0x3ff) && ((s >> 10) & 31) == 31 && (s & 0x3ff), "NaN constants are NaNs");
      CHECK((q & 0x200) && !(s & 0x200), "quiet NaN has the quiet bit, signalling NaN does not");
      CHECK(w_half_limit(11) == q && w_half_limit(12) == s, "half::qNan()/sNan() == numeric_limits"); }
    END;
}
HARNESS(h_limit_macros)
{
    /* the HALF_* macros convert (through the real float->half) to exactly the extreme patterns */
    CHECK(w_half_ctor((f32)w_half_macro(3)) == 0x7bff && (f32)w_half_macro(3) == bits_f32(ref_h2f(0x7bff)), "HALF_MAX is the largest finite half");
    CHECK(w_half_ctor((f32)w_half_macro(2)) == 0x0400 && w_half_ctor((f32)w_half_macro(1)) == 0x0400, "HALF_MIN / HALF_NRM_MIN convert to the smallest normal");
    CHECK(w_half_ctor((f32)w_half_macro(0)) == 0x0001, "HALF_DENORM_MIN converts to the smallest subnormal");
    CHECK(w_half_ctor((f32)w_half_macro(4)) == 0x1400, "HALF_EPSILON converts to epsilon()");
    /* next float above the rounding boundary overflows, at the boundary's lower side stays max */
    CHECK(w_half_ctor(65520.0f) == 0x7c00 && w_half_ctor(bits_f32(f32_bits(65520.0f) - 1)) == 0x7bff, "65520 is the overflow boundary");
    CHECK(w_half_limit_int(0) == 11 && w_half_macro(5) == 11, "digits == 11");
    CHECK(w_half_limit_int(1) == 3 && w_half_limit_int(2) == 5 && w_half_macro(6) == 3 && w_half_macro(7) == 5, "digits10 == 3, max_digits10 == 5");
    CHECK(w_half_limit_int(3) == 2 && w_half_limit_int(4) == -13 && w_half_limit_int(5) == 16 && w_half_limit_int(6) == -4 && w_half_limit_int(7) == 4, "radix / exponent ranges");
    CHECK(w_half_limit_int(8) == 1 && w_half_limit_int(9) == 1 && w_half_limit_int(10) == 1, "is_signed, has_infinity/NaN/denorm, is_specialized");
    CHECK(w_half_macro(9) == -13 && w_half_macro(10) == 16 && w_half_macro(11) == -4 && w_half_macro(12) == 4 && w_half_macro(8) == 2, "macro exponent ranges");
    END;
}
HARNESS(h_digits)
{   /* digits == 11: every integer |i| <= 2048 converts exactly, 2049 does not; max_exponent: 2^15 finite, 2^16 not */
    IN(i32, i);
    ASSUME(i >= -2049 && i <= 2049);
    u16 h = w_half_ctor((f32)i);
    f32 back = bits_f32(ref_h2f(h));
    if (i >= -2048 && i <= 2048) CHECK(back == (f32)i, "integers up to 2^11 are exact");
    else CHECK(back != (f32)i, "2049 is not representable");
    CHECK(w_half_ctor(0x1p15f) == 0x7800 && w_half_ctor(0x1p16f) == 0x7c00, "2^(max_exponent-1) finite, 2^max_exponent overflows");
    CHECK(w_half_ctor(0x1p-14f) == 0x0400 && w_half_ctor(0x1p-24f) == 0x0001, "2^(min_exponent-1) is the smallest normal; 2^-24 the smallest subnormal");
    END;
}

/* ---- C03-O5: round(n) ---- */
HARNESS(h_round)
{
    IN(u16, b); IN(u32, n);
    ASSUME(!(((b >> 10) & 31u) == 31u && (b & 0x3ffu)));     /* finite or infinite */
    u16 r = w_half_round(b, n);
    if (n >= 10) { CHECK(r == b, "n >= 10 is the identity"); }
    else
    {
        u32 k = 10 - n;
        CHECK((r & 0x8000u) == (b & 0x8000u), "sign kept");
        CHECK((((r >> 10) & 31u) == 31u) == (((b >> 10) & 31u) == 31u), "finite stays finite, infinite stays infinite");
        CHECK(!(((r >> 10) & 31u) == 31u && (r & 0x3ffu)), "never produces NaN");
        CHECK((r & ((1u << k) - 1u)) == 0, "low 10-n significand bits cleared");
        /* magnitude bits are monotone in value and one unit of n-bit precision == 2^k in bit space (also across
           exponent boundaries), so "within half a unit" is |mr - mb| <= 2^(k-1); truncation allowed only when
           rounding up would reach the infinity pattern */
        u32 mb = b & 0x7fffu, mr = r & 0x7fffu;
        u32 d = mb > mr ? mb - mr : mr - mb;
        u32 up = ((mb >> k) + 1u) << k;
        if (((mb >> 10) & 31u) != 31u)
        {
            if (d > (1u << (k - 1)))
                CHECK(mr == ((mb >> k) << k) && up >= 0x7c00u, "truncates only where rounding up would reach infinity");
            if (up >= 0x7c00u && (mb & ((1u << k) - 1u)) >= (1u << (k - 1)))
                CHECK(mr == ((mb >> k) << k), "rounding up to infinity is replaced by truncation");
        }
        else CHECK(mr == 0x7c00u, "infinity is unchanged");
    }
    END;
}
