/* C18: random generators (IR of wrappers/random.cpp linked with the real ImathRandom.cpp). */
#include "verif.h"
#include GEN_H

/* POSIX rand48 reference, from the standard: X' = (0x5DEECE66D * X + 0xB) mod 2^48 */
static u64 lcg(u64 X) { return (X * 0x5DEECE66DULL + 0xBULL) & 0xFFFFFFFFFFFFULL; }
static u64 pack(const u16* st) { return ((u64)st[2] << 32) | ((u64)st[1] << 16) | st[0]; }

HARNESS(h_nrand48)
{   /* from every 48-bit state */
    INA(u16, st, 3);
    u64 Xn = lcg(pack(st));
    i64 v = (i64)w_nrand48(st);
    CHECK(v == (i64)(Xn >> 17), "nrand48 == bits 47..17 of the successor state");
    CHECK(v >= 0 && v < 2147483648LL, "nrand48 in [0, 2^31)");
    CHECK(pack(st) == Xn, "successor state == POSIX LCG step");
    END;
}
HARNESS(h_erand48)
{
    INA(u16, st, 3);
    u64 Xn = lcg(pack(st));
    f64 d = w_erand48(st);
    CHECK(pack(st) == Xn, "successor state == POSIX LCG step");
    f64 ref = (f64)Xn * 0x1p-48;            /* exact: Xn < 2^48 */
    CHECK(d >= 0.0 && d < 1.0, "erand48 in [0,1)");
    CHECK(d - ref >= 0.0 && d - ref < 0x1p-48, "0 <= erand48 - X*2^-48 < 2^-48");
    END;
}
HARNESS(h_erand48_compositional)
{   /* same range claim with the LCG step cut out: arbitrary post-step state (used when the multiplier stalls) */
    INA(u16, st, 3);
    f64 d = w_erand48(st);
    u64 Xn = pack(st);
    f64 ref = (f64)Xn * 0x1p-48;
    CHECK(d >= 0.0 && d < 1.0, "erand48 in [0,1)");
    CHECK(d - ref >= 0.0 && d - ref < 0x1p-48, "0 <= erand48 - X*2^-48 < 2^-48");
    END;
}
HARNESS(h_srand_lrand)
{
    IN(i64, seed);
    i64 out[2];
    w_srand_lrand2(seed, (void*)out);
    u64 X0 = ((u64)(u16)(seed >> 16) << 32) | ((u64)(u16)seed << 16) | 0x330eULL;   /* POSIX srand48 layout */
    u64 X1 = lcg(X0), X2 = lcg(X1);
    CHECK(out[0] == (i64)(X1 >> 17), "srand48(seed); lrand48() == POSIX");
    CHECK(out[1] == (i64)(X2 >> 17), "second lrand48() continues the same static sequence");
    END;
}
HARNESS(h_srand_drand)
{
    IN(i64, seed);
    f64 d; i64 l;
    w_srand_drand_lrand(seed, &d, (void*)&l);
    u64 X0 = ((u64)(u16)(seed >> 16) << 32) | ((u64)(u16)seed << 16) | 0x330eULL;
    u64 X1 = lcg(X0), X2 = lcg(X1);
    f64 ref = (f64)X1 * 0x1p-48;
    CHECK(d >= 0.0 && d < 1.0 && d - ref >= 0.0 && d - ref < 0x1p-48, "drand48 after srand48 == POSIX within 2^-48, in [0,1)");
    CHECK(l == (i64)(X2 >> 17), "drand48 and lrand48 share one static state");
    END;
}

/* ---- Rand32 ---- */
HARNESS(h_r32)
{
    IN(u64, s0);
    u64 s = s0;
    u64 nx = 1664525ULL * s0 + 1013904223ULL;
    u64 a = s0, b = s0, c = s0;
    int bb = w_r32_nextb((void*)&a);
    u64 ii = w_r32_nexti((void*)&b);
    f32 ff = w_r32_nextf((void*)&c);
    CHECK(a == nx && b == nx && c == nx, "every draw advances the state by the same LCG step (pure function of the state)");
    CHECK(bb == (int)((nx >> 31) & 1), "nextb == bit 31 of the new state");
    CHECK(ii == (nx & 0xffffffffULL) && ii <= 0xffffffffULL, "nexti == low 32 bits, in [0, 2^32)");
    CHECK(ff >= 0.0f && ff < 1.0f, "nextf in [0,1)");
    CHECK(ff == bits_f32(0x3f800000u | (u32)(nx & 0x7fffff)) - 1.0f, "nextf == mantissa packing of the low 23 state bits");
    END;
}
HARNESS(h_r32_init)
{
    IN(u64, seed); IN(u64, old);
    u64 s = w_r32_init(seed);
    CHECK(s == ((seed * 0xa5a573a5ULL) ^ 0x5a5a5a5aULL), "Rand32(seed) state is a pure function of the seed");
    CHECK(w_r32_reinit(old, seed) == s, "init(seed) forgets the previous state");
    END;
}
HARNESS(h_r32_range)
{   /* nextf(a,b) in the closed interval up to one rounding, finite a<=b of like magnitude */
    IN(u64, s0); IN(f32, a); IN(f32, b);
    ASSUME(a <= b && a >= -0x1p60f && b <= 0x1p60f);
    f32 r = w_r32_nextf_range((void*)&s0, a, b);
    f32 slack = (fabsf(a) > fabsf(b) ? fabsf(a) : fabsf(b)) * 0x1p-22f + 0x1p-147f;   /* relative rounding, plus a few denormal ulps where the products round in the subnormal range */
    CHECK(r == r && r >= a - slack && r <= b + slack, "nextf(a,b) within the closed interval up to rounding");
    END;
}

/* ---- Rand48 ---- */
HARNESS(h_r48)
{
    INA(u16, st, 3);
    u16 a[3] = { st[0], st[1], st[2] }, b[3] = { st[0], st[1], st[2] }, c[3] = { st[0], st[1], st[2] };
    u64 Xn = lcg(pack(st));
    int bb = w_r48_nextb(a);
    i64 ii = (i64)w_r48_nexti(b);
    f64 ff = w_r48_nextf(c);
    CHECK(pack(a) == Xn && pack(b) == Xn && pack(c) == Xn, "every draw advances the state by one rand48 step");
    CHECK(ii == (i64)(Xn >> 17) && ii >= 0 && ii < 2147483648LL, "nexti == nrand48");
    CHECK(bb == (int)((Xn >> 17) & 1), "nextb == low bit of nrand48");
    CHECK(ff >= 0.0 && ff < 1.0, "nextf in [0,1)");
    END;
}
HARNESS(h_r48_init)
{
    IN(u64, seed);
    u16 st[3];
    w_r48_init(seed, st);
    u64 s = (seed * 0xa5a573a5ULL) ^ 0x5a5a5a5aULL;
    CHECK(st[0] == (u16)s && st[1] == (u16)(s >> 16) && st[2] == (u16)s, "Rand48(seed) state is a pure function of the seed");
    END;
}

#if defined(__CPROVER__) && defined(UF_ARITH)
#define FADD(a, b) verif_uf_fadd_float(a, b)
#define FMUL(a, b) verif_uf_fmul_float(a, b)
#else
#define FADD(a, b) ((a) + (b))
#define FMUL(a, b) ((a) * (b))
#endif
/* ---- sphere samplers: partial correctness of the rejection loop.  The generator state on entry of an
 * iteration is arbitrary, so "one iteration from an arbitrary state, loop exits" covers every iteration;
 * paths that do not exit within the unwinding bound are cut (no unwinding assertion on this loop). ---- */
HARNESS(h_solid3)
{
    INA(u16, st, 3);
    struct T_class_Imath_3_2__Vec3 v;
    w_solid3f_r48(st, &v);
    f32 x = v.f0, y = v.f1, z = v.f2;
    CHECK(!(FADD(FADD(FMUL(x, x), FMUL(y, y)), FMUL(z, z)) > 1.0f), "solidSphereRand<V3f>: length2() of the returned point is not > 1");
    END;
}
HARNESS(h_solid2)
{
    IN(u64, s0);
    struct T_class_Imath_3_2__Vec2 v;
    w_solid2f_r32((void*)&s0, &v);
    f32 x = v.f0, y = v.f1;
    CHECK(!(FADD(FMUL(x, x), FMUL(y, y)) > 1.0f), "solidSphereRand<V2f>: length2() of the returned point is not > 1");
    END;
}
