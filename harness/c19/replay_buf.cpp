// Native replay for the buffer-description obligations: the real BufferAPI classes on a real FixedArray.
#include <Python.h>
#include <PyImathBufferProtocol.cpp>
#include <cstdio>
#include <cstdlib>
#include <string>
#include <vector>
using namespace PyImath;
using namespace IMATH_NAMESPACE;
template <class ET> static int go (size_t len, size_t stride, bool wr)
{
    std::vector<ET> mem (len * stride + 1);
    FixedArray<ET> a (mem.data (), (Py_ssize_t) len, (Py_ssize_t) stride, wr);
    SharedBufferAPI<FixedArray<ET> > api (a);
    void* bp = 0;
    try { bp = api.buffer (); }
    catch (std::exception& e) { printf ("buffer() threw: %s\nREPLAY-FAIL exporting the buffer raised a C++ exception (writable=%d)\n", e.what (), (int) wr); return 1; }
    if (bp != (void*) mem.data ()) { printf ("REPLAY-FAIL buf does not point at element 0\n"); return 1; }
    long nb = api.numBytes (), span = (long) (len * stride * sizeof (ET));
    long prod = api.shape[0] * (api.dimensions > 1 ? api.shape[1] : 1) * api.atomicSize ();
    printf ("numBytes=%ld occupied=%ld product(shape)*itemsize=%ld\n", nb, span, prod);
    if (nb != span || (stride == 1 && nb != prod)) { printf ("REPLAY-FAIL len (numBytes) does not describe the array's memory\n"); return 1; }
    printf ("REPLAY-RESULT holds\n"); return 0;
}
int main (int argc, char** argv)
{
    std::string tag = argv[1]; size_t len = strtoul (argv[2], 0, 0), stride = strtoul (argv[3], 0, 0); bool wr = atoi (argv[4]);
    if (tag == "i") return go<int> (len, stride, wr);
    if (tag == "f") return go<float> (len, stride, wr);
    if (tag == "d") return go<double> (len, stride, wr);
    if (tag == "s") return go<short> (len, stride, wr);
    if (tag == "v2f") return go<Vec2<float> > (len, stride, wr);
    if (tag == "v3f") return go<Vec3<float> > (len, stride, wr);
    if (tag == "v4d") return go<Vec4<double> > (len, stride, wr);
    if (tag == "v3i") return go<Vec3<int> > (len, stride, wr);
    return 2;
}
