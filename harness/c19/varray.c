/* C19: FixedVArray<int>.__getitem__(int): the row view selects the right row (negative and masked indices included)
 * and inherits the read-only flag of the array it was taken from. */
#include "verif.h"
#include GEN_H
#ifndef N
#define N 3
#endif
#define PYERR 99
void STUB_PyErr_SetString(struct T_struct__object* o, uint8_t* m) {}
void STUB__ZN5boost6python23throw_error_already_setEv(void) { __verif_exc = PYERR; }
struct T_struct__object* G_PyExc_IndexError;
static struct T_class_boost__detail__sp_counted_base cnt;
HARNESS(h_varray_getitem)
{
    IN(u64, len); IN(u64, stride); IN(u8, writable); IN(u8, masked); IN(u64, ul); INA(u64, ix, N); INA(u64, rowlen, 2 * N); IN(i64, i);
    ASSUME(stride >= 1 && stride <= 2);
    if (masked & 1) ASSUME(ul <= N && len <= ul); else ASSUME(len <= N);
    static u64 idxs[N]; static u32 pool[2 * N][4]; static struct T_class_std__vector rows[2 * N];
    for (int k = 0; k < 2 * N; k++) { ASSUME(rowlen[k] <= 4); rows[k].f0.f0.f0.f0 = pool[k]; rows[k].f0.f0.f0.f1 = pool[k] + rowlen[k]; rows[k].f0.f0.f0.f2 = pool[k] + 4; }
    for (int k = 0; k < N; k++) { idxs[k] = ix[k]; if (masked & 1) { ASSUME(ix[k] < ul); if (k + 1 < N && (u64)(k + 1) < len) ASSUME(ix[k] < ix[k + 1]); } }
    struct T_class_PyImath__FixedVArray v;
    v.f0 = rows; v.f1 = len; v.f2 = stride; v.f3 = writable & 1; v.f4.f0 = 0; v.f6 = (masked & 1) ? ul : 0;
    if (masked & 1) { v.f5.f0 = idxs; v.f5.f1.f0 = &cnt; cnt.f1 = 1000; cnt.f2 = 1000; } else { v.f5.f0 = 0; v.f5.f1.f0 = 0; }
    i64 o[5] = { -7, -7, -7, -7, -7 };
    __verif_exc = 0; w_varray_getitem(&v, i, (void*)o);
    i64 L = (i64)len;
    if (i >= -L && i < L)
    {
        u64 k = (u64)(i < 0 ? i + L : i); u64 slot = ((masked & 1) ? idxs[k] : k) * stride;
        CHECK(__verif_exc == 0, "in-range row index does not raise");
        CHECK(o[0] == (i64)rowlen[slot] && o[1] == 1, "row view has the length of the selected row, stride 1");
        CHECK(o[2] == (writable & 1), "the row view of a read-only array is read-only (and of a writable one writable)");
        if (rowlen[slot]) CHECK(o[3] == (i64)(void*)pool[slot], "row view points at the data of the row a Python list of lists would select");
        CHECK(o[4] == 0, "row view is a direct (unmasked) array");
    }
    else CHECK(__verif_exc == PYERR, "out-of-range row index raises IndexError");
    CHECK(w_varray_len(&v) == L && w_varray_writable(&v) == (writable & 1), "__len__ / writable()");
    END;
}
