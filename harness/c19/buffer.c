/* C19 (buffer interface): what getbuffer() reports describes exactly the array's memory. */
#include "verif.h"
#include <stdlib.h>
#include GEN_H
uint8_t* STUB__Znam(uint64_t n) { uint8_t* p = malloc(n ? n : 1); ASSUME(p != 0); return p; }
uint8_t* STUB__Znwm(uint64_t n) { uint8_t* p = malloc(n ? n : 1); ASSUME(p != 0); return p; }
void STUB__ZdaPv(uint8_t* p) {}
void STUB__ZdlPv(uint8_t* p) {}
uint8_t* STUB___cxa_begin_catch(uint8_t* p) { return p; }
void STUB___cxa_end_catch(void) {}
void STUB___cxa_rethrow(void) { ASSUME(0); }
void STUB__ZSt9terminatev(void) { ASSUME(0); }
/* layout-identical to PyImath::FixedArray<T> for every T (checked against the translated struct in props/c19.py) */
struct GFA { void* ptr; u64 len; u64 stride; u8 writable; void* handle; void* ix; void* cnt; u64 ul; };
static u8 store[4096];
#define DESC(TAG, ATOM, WIDTH)                                                                                  \
    HARNESS(h_buf_##TAG)                                                                                        \
    {   IN(u64, len); IN(u64, stride); IN(u8, wr);                                                              \
        ASSUME(len <= 8 && stride >= 1 && stride <= 3);                                                         \
        struct GFA a; a.ptr = store; a.len = len; a.stride = stride; a.writable = wr & 1; a.handle = 0; a.ix = 0; a.cnt = 0; a.ul = 0; \
        i64 o[9]; __verif_exc = 0; w_buf_describe_##TAG((void*)&a, (void*)o);                                   \
        CHECK(__verif_exc == 0, "no exception");                                                                \
        CHECK(o[1] == ATOM, "itemsize == size of the atomic element");                                          \
        CHECK(o[2] == (WIDTH > 1 ? 2 : 1), "ndim: 1 for scalar arrays, 2 for vector-element arrays");            \
        CHECK(o[3] == (i64)len, "shape[0] == number of elements");                                              \
        if (WIDTH > 1) CHECK(o[4] == (i64)(WIDTH * stride) && o[6] == ATOM, "shape[1] == width*interleave, strides[1] == itemsize"); \
        CHECK(o[5] == (i64)(ATOM * WIDTH * stride), "strides[0] == bytes from one element to the next");        \
        CHECK(o[0] == (i64)(len * stride * WIDTH * ATOM), "len (numBytes) == the bytes the array occupies: length * stride * sizeof(element)"); \
        if (stride == 1) CHECK(o[0] == o[3] * o[4] * o[1], "contiguous array: len == product of shape * itemsize"); \
        CHECK(o[7] == !(wr & 1), "readonly == !writable");                                                      \
        CHECK(o[8] == 0, "buf points at element 0");                                                            \
        END; }
DESC(i, 4, 1) DESC(f, 4, 1) DESC(d, 8, 1) DESC(s, 2, 1) DESC(v2f, 4, 2) DESC(v3f, 4, 3) DESC(v4d, 8, 4) DESC(v3i, 4, 3)
