/* C19 (buffer interface): what getbuffer() reports describes exactly the array's memory. */
#include "verif.h"
#include <stdlib.h>
#include GEN_H
uint8_t* STUB__Znam(uint64_t n) { uint8_t* p = malloc(n ? n : 1); ASSUME(p != 0); return p; }
uint8_t* STUB__Znwm(uint64_t n) { uint8_t* p = malloc(n ? n : 1); ASSUME(p != 0); return p; }
void STUB__ZdaPv(uint8_t* p) {}
void STUB__ZdlPv(uint8_t* p) {}
uint8_t* STUB___cxa_begin_catch(uint8_t* p) { return p; }
void STUB___cxa_end_catch(void) {}
void STUB___cxa_rethrow(void) { ASSUME(0); }
void STUB__ZSt9terminatev(void) { ASSUME(0); }
/* layout-identical to PyImath::FixedArray<T> for every T (checked against the translated struct in props/c19.py) */
struct GFA { void* ptr; u64 len; u64 stride; u8 writable; void* handle; void* ix; void* cnt; u64 ul; };
static u8 store[4096];
#define DESC(TAG, ATOM, WIDTH)                                                                                  \
    HARNESS(h_buf_##TAG)                                                                                        \
    {   IN(u64, len); IN(u64, stride); IN(u8, wr);                                                              \
        ASSUME(len <= 8 && stride >= 1 && stride <= 3);                                                         \
        struct GFA a; a.ptr = store; a.len = len; a.stride = stride; a.writable = wr & 1; a.handle = 0; a.ix = 0; a.cnt = 0; a.ul = 0; \
        i64 o[9]; __verif_exc = 0; w_buf_describe_##TAG((void*)&a, (void*)o);                                   \
        CHECK(__verif_exc == 0, "no exception");                                                                \
        CHECK(o[1] == ATOM, "itemsize == size of the atomic element");                                          \
        CHECK(o[2] == (WIDTH > 1 ? 2 : 1), "ndim: 1 for scalar arrays, 2 for vector-element arrays");            \
        CHECK(o[3] == (i64)len, "shape[0] == number of elements");                                              \
        if (WIDTH > 1) CHECK(o[4] == (i64)(WIDTH * stride) && o[6] == ATOM, "shape[1] == width*interleave, strides[1] == itemsize"); \
        CHECK(o[5] == (i64)(ATOM * WIDTH * stride), "strides[0] == bytes from one element to the next");        \
        CHECK(o[0] == (i64)(len * stride * WIDTH * ATOM), "len (numBytes) == the bytes the array occupies: length * stride * sizeof(element)"); \
        if (stride == 1) CHECK(o[0] == o[3] * o[4] * o[1], "contiguous array: len == product of shape * itemsize"); \
        CHECK(o[7] == !(wr & 1), "readonly == !writable");                                                      \
        CHECK(o[8] == 0, "buf points at element 0");                                                            \
        END; }
DESC(i, 4, 1) DESC(f, 4, 1) DESC(d, 8, 1) DESC(s, 2, 1) DESC(v2f, 4, 2) DESC(v3f, 4, 3) DESC(v4d, 8, 4) DESC(v3i, 4, 3)

/* ---- import: fixedArrayFromBuffer<FixedArray<T>>(obj).  The exporter is modelled by its contract: PyObject_GetBuffer(PyBUF_FORMAT |
   PyBUF_STRIDES) hands back an ARBITRARY well-formed, C-contiguous description - ndim 1 or 2, arbitrary shape, itemsize 1/2/4/8, an
   arbitrary one-character format, len == product(shape) * itemsize, buf valid for exactly len bytes.  The import must either raise
   (buffer released, nothing written) or return an array that holds exactly the source elements; it accepts only buffers whose
   element format and total size match the array type.  Out-of-bounds reads of buf and writes of the new array are CBMC
   pointer/bounds failures. */
#ifdef IMPORT_HARNESS
static struct T_struct_Py_buffer the_view; static int released, contiguous;
uint32_t STUB_PyObject_CheckBuffer(struct T_struct__object* o) { return 1; }
uint32_t STUB_PyObject_GetBuffer(struct T_struct__object* o, struct T_struct_Py_buffer* v, uint32_t flags) { *v = the_view; return 0; }
void STUB_PyBuffer_Release(struct T_struct_Py_buffer* v) { released++; }
uint32_t STUB_PyBuffer_IsContiguous(struct T_struct_Py_buffer* v, uint8_t order) { return contiguous; }
#define IMPORT(TAG, FMT, ELSZ)                                                                                  \
    HARNESS(h_import_##TAG)                                                                                     \
    {   IN(u8, ndim); IN(u64, s0); IN(u64, s1); IN(u8, isz); IN(u8, f0); IN(u8, ro);                            \
        ASSUME(ndim >= 1 && ndim <= 2 && s0 <= 2 && s1 >= 1 && s1 <= 3 && (isz == 1 || isz == 2 || isz == 4 || isz == 8)); \
        ASSUME(f0 == 'f' || f0 == 'd' || f0 == 'i' || f0 == 'h' || f0 == 'B' || f0 == 'l' || f0 == '>');        \
        if (ndim == 1) ASSUME(s1 == 1);                                                                         \
        ASSUME(isz == ((f0 == 'd' || f0 == 'l') ? 8 : (f0 == 'f' || f0 == 'i' || f0 == '>') ? 4 : f0 == 'h' ? 2 : 1));   /* itemsize is the size of the format's type */ \
        u64 nbytes = s0 * s1 * isz;                                                                             \
        u8* src = malloc(nbytes ? nbytes : 1); ASSUME(src != 0);                                                \
        INA(u8, bytes, 48); for (u64 k = 0; k < 48; k++) if (k < nbytes) src[k] = bytes[k];                      \
        static u64 shp[2], strd[2]; static u8 fmt[2]; static struct T_struct__object obj;                       \
        shp[0] = s0; shp[1] = s1; strd[0] = s1 * isz; strd[1] = isz; fmt[0] = f0; fmt[1] = 0;                    \
        the_view.f0 = src; the_view.f1 = &obj; the_view.f2 = nbytes; the_view.f3 = isz; the_view.f4 = ro & 1; the_view.f5 = ndim; \
        the_view.f6 = fmt; the_view.f7 = shp; the_view.f8 = strd; the_view.f9 = 0; the_view.f10 = 0;             \
        released = 0; contiguous = 1; __verif_exc = 0;                                                          \
        struct GFA* a = (struct GFA*)w_from_buffer_##TAG(&obj); int ex = __verif_exc; __verif_exc = 0;           \
        CHECK(released == 1, "the buffer view is released exactly once, on success and on rejection");          \
        if (!ex) {                                                                                              \
            CHECK(a != 0, "an array is returned");                                                              \
            CHECK(f0 == FMT, "accepted => the buffer's element format is the array's element type");            \
            CHECK(nbytes == s0 * (ELSZ), "accepted => the buffer holds exactly shape[0] elements of the array's element size"); \
            CHECK(a->len == s0 && a->stride == 1 && a->writable, "the new array has shape[0] elements, unit stride, writable"); \
            for (u64 k = 0; k < 48; k++) if (k < nbytes && k < s0 * (ELSZ)) CHECK(((u8*)a->ptr)[k] == bytes[k], "the array holds exactly the source bytes"); \
        }                                                                                                       \
        END; }
IMPORT(f, 'f', 4) IMPORT(v3f, 'f', 12)
#endif
