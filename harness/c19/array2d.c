/* C19: FixedArray2D<int> selects, for every index pair and every FORWARD slice per dimension, the same elements as the
 * corresponding nested Python lists a[i][j] (x is the fast index: element (i,j) lives at ptr[stride.x * (j*stride.y + i)]).
 * State: arbitrary valid object - lengths lx, ly <= N, element stride 1..2, row pitch stride.y in {lx, lx+1}, backing store of
 * exactly stride.x*stride.y*ly elements (anything beyond is a CBMC bounds violation).  CPython externals are stubs: a 2-tuple of
 * two slice/int objects, PySlice_AdjustIndices transcribed from CPython. */
#include "verif.h"
#include <stdlib.h>
#include GEN_H
#ifndef N
#define N 3
#endif
#define PYERR 99
#ifndef KINDS
#define KINDS 0      /* bit k set: dimension k is indexed by an integer, else by a forward slice */
#endif
typedef struct T_class_PyImath__FixedArray2D A2;
typedef struct T_struct__object PYO;
static PYO tuple_obj, ix_obj[2]; static struct T_struct__typeobject tuple_type, long_type; struct T_struct__typeobject G_PySlice_Type; PYO* G_PyExc_IndexError; PYO* G_PyExc_TypeError;
static i64 sl_start[2], sl_stop[2], sl_step[2], int_index[2]; static u64 tuple_size;
static int which(PYO* o) { return o == &ix_obj[1]; }
uint64_t STUB_PyTuple_Size(PYO* o) { return tuple_size; }
PYO* STUB_PyTuple_GetItem(PYO* o, uint64_t i) { return &ix_obj[i & 1]; }
uint32_t STUB_PySlice_Unpack(PYO* o, uint64_t* a, uint64_t* b, uint64_t* c) { int k = which(o); *a = sl_start[k]; *b = sl_stop[k]; *c = sl_step[k]; return 0; }
uint64_t STUB_PyLong_AsSsize_t(PYO* o) { return (uint64_t)int_index[which(o)]; }
uint64_t STUB_PySlice_AdjustIndices(uint64_t ulength, uint64_t* pstart, uint64_t* pstop, uint64_t ustep)
{
    i64 length = ulength, start = *pstart, stop = *pstop, step = ustep;
    if (start < 0) { start += length; if (start < 0) start = (step < 0) ? -1 : 0; } else if (start >= length) { start = (step < 0) ? length - 1 : length; }
    if (stop < 0) { stop += length; if (stop < 0) stop = (step < 0) ? -1 : 0; } else if (stop >= length) { stop = (step < 0) ? length - 1 : length; }
    *pstart = start; *pstop = stop;
    if (step < 0) { if (stop < start) return (start - stop - 1) / (-step) + 1; } else { if (start < stop) return (stop - start - 1) / step + 1; }
    return 0;
}
void STUB_PyErr_SetString(PYO* o, uint8_t* m) {}
void STUB__ZN5boost6python23throw_error_already_setEv(void) { __verif_exc = PYERR; }
uint8_t* STUB___cxa_begin_catch(uint8_t* p) { return p; }
void STUB__ZSt9terminatev(void) { ASSUME(0); }

static u32* data; static u64 cap;
#define STATE                                                                                              \
    IN(u64, lx); IN(u64, ly); IN(u64, sx); IN(u64, pitch); INA(u32, init, 2 * (N + 1) * N);                 \
    ASSUME(lx <= N && ly <= N && sx >= 1 && sx <= 2 && pitch >= lx && pitch <= lx + 1);                     \
    cap = sx * pitch * ly; data = malloc(sizeof(u32) * (cap ? cap : 1)); ASSUME(data != 0);                \
    for (u64 i = 0; i < cap; i++) data[i] = init[i];                                                       \
    A2 a; a.f0 = data; a.f1.f0 = lx; a.f1.f1 = ly; a.f2.f0 = sx; a.f2.f1 = pitch; a.f3 = lx * ly; a.f4.f0 = 0; \
    tuple_type.f19 = 1ul << 26; long_type.f19 = 1ul << 24; tuple_obj.f1 = &tuple_type; tuple_size = 2;
#define SLOT(i, j) (sx * ((j) * pitch + (i)))
/* dimension k indexed by a forward slice (step >= 1) or by an integer */
#define INDEX(k, LEN)                                                                                      \
    u8 isint##k = (KINDS >> k) & 1; IN(i64, s##k); IN(i64, e##k); IN(i64, st##k); IN(i64, ii##k);          \
    ASSUME(st##k >= 1 && st##k <= 2 && s##k >= -3 && s##k <= 3 && e##k >= -3 && e##k <= 3 && ii##k >= -3 && ii##k <= 3); \
    if (isint##k & 1) { ix_obj[k].f1 = &long_type; int_index[k] = ii##k; } else { ix_obj[k].f1 = &G_PySlice_Type; sl_start[k] = s##k; sl_stop[k] = e##k; sl_step[k] = st##k; } \
    int bad##k = 0; u64 b##k = 0, n##k = 0, t##k = 1;                                                      \
    if (isint##k & 1) { if (ii##k < -(i64)(LEN) || ii##k >= (i64)(LEN)) bad##k = 1; else { b##k = (u64)(ii##k < 0 ? ii##k + (i64)(LEN) : ii##k); n##k = 1; } } \
    else { u64 ss = s##k, ee = e##k; n##k = STUB_PySlice_AdjustIndices(LEN, &ss, &ee, st##k); b##k = ss; t##k = st##k; }

HARNESS(h_2d_getitem)
{
    STATE; IN(i64, i); IN(i64, j);
    __verif_exc = 0; u32 r = w_2d_getitem(&a, i, j);
    i64 LX = lx, LY = ly;
    if (i >= -LX && i < LX && j >= -LY && j < LY) { CHECK(__verif_exc == 0, "in-range index pair does not raise");
        CHECK(r == init[SLOT((u64)(i < 0 ? i + LX : i), (u64)(j < 0 ? j + LY : j))], "a[i,j] is the element a Python nested list selects (negative indices count from the end)"); }
    else CHECK(__verif_exc == PYERR, "an out-of-range index in either dimension raises IndexError");
    for (u64 k = 0; k < cap; k++) CHECK(data[k] == init[k], "reading does not modify the array");
    END;
}
HARNESS(h_2d_setitem_scalar)
{
    STATE; INDEX(0, lx) INDEX(1, ly)
    __verif_exc = 0; w_2d_setitem_scalar(&a, &tuple_obj, 777);
    if (bad0 || bad1) { CHECK(__verif_exc == PYERR, "an out-of-range integer index raises"); }
    else { CHECK(__verif_exc == 0, "a[xs, ys] = v with forward slices / in-range integers does not raise");
           u32 want[2 * (N + 1) * N]; for (u64 k = 0; k < 2 * (N + 1) * N; k++) want[k] = init[k];
           for (u64 p = 0; p < N; p++) for (u64 q = 0; q < N; q++) if (p < n0 && q < n1) want[SLOT(b0 + p * t0, b1 + q * t1)] = 777;
           for (u64 k = 0; k < cap; k++) CHECK(data[k] == want[k], "a[xs, ys] = v writes exactly the selected elements"); }
    END;
}
HARNESS(h_2d_setitem_vector)
{
    STATE; INDEX(0, lx) INDEX(1, ly) IN(u64, dx); IN(u64, dy); INA(u32, src, N * N);
    ASSUME(dx <= N && dy <= N);
    static u32 sdat[N * N]; for (int k = 0; k < N * N; k++) sdat[k] = src[k];
    A2 d; d.f0 = sdat; d.f1.f0 = dx; d.f1.f1 = dy; d.f2.f0 = 1; d.f2.f1 = dx; d.f3 = dx * dy; d.f4.f0 = 0;
    __verif_exc = 0; w_2d_setitem_vector(&a, &tuple_obj, &d);
    if (bad0 || bad1 || dx != n0 || dy != n1) { CHECK(__verif_exc == PYERR, "an out-of-range index or a source of another shape raises"); for (u64 k = 0; k < cap; k++) CHECK(data[k] == init[k], "and writes nothing"); }
    else { CHECK(__verif_exc == 0, "matching shapes do not raise");
           u32 want[2 * (N + 1) * N]; for (u64 k = 0; k < 2 * (N + 1) * N; k++) want[k] = init[k];
           for (u64 p = 0; p < N; p++) for (u64 q = 0; q < N; q++) if (p < n0 && q < n1) want[SLOT(b0 + p * t0, b1 + q * t1)] = src[q * dx + p];
           for (u64 k = 0; k < cap; k++) CHECK(data[k] == want[k], "a[xs, ys] = b stores b[p,q] in the (p,q)-th selected element"); }
    END;
}
HARNESS(h_2d_setitem_array1d)
{   /* a[xs, ys] = <1-D array>: the source is consumed row by row (x fastest); its length must be the number of selected elements */
    STATE; INDEX(0, lx) INDEX(1, ly) IN(u64, dl); INA(u32, src, N * N);
    ASSUME(dl <= N * N);
    static u32 sdat[N * N]; for (int k = 0; k < N * N; k++) sdat[k] = src[k];
    struct T_class_PyImath__FixedArray d; d.f0 = sdat; d.f1 = dl; d.f2 = 1; d.f3 = 1; d.f4.f0 = 0; d.f5.f0 = 0; d.f5.f1.f0 = 0; d.f6 = 0;
    __verif_exc = 0; w_2d_setitem_array1d(&a, &tuple_obj, &d);
    if (bad0 || bad1 || dl != n0 * n1) { CHECK(__verif_exc == PYERR, "an out-of-range index or a source of another length raises"); for (u64 k = 0; k < cap; k++) CHECK(data[k] == init[k], "and writes nothing"); }
    else { CHECK(__verif_exc == 0, "a source with one element per selected slot is accepted");
           u32 want[2 * (N + 1) * N]; for (u64 k = 0; k < 2 * (N + 1) * N; k++) want[k] = init[k];
           for (u64 q = 0; q < N; q++) for (u64 p = 0; p < N; p++) if (p < n0 && q < n1) want[SLOT(b0 + p * t0, b1 + q * t1)] = src[q * n0 + p];
           for (u64 k = 0; k < cap; k++) CHECK(data[k] == want[k], "a[xs, ys] = flat stores flat[q*nx + p] in the (p,q)-th selected element"); }
    END;
}
