/* C19: FixedArray<int> indexes like a Python list and honours read-only protection.
 * The array object is built directly as struct state (layout taken from the IR): arbitrary length <= N, stride 1..2,
 * writable flag, optional mask indices satisfying the representation invariant indices[i] < unmaskedLength.
 * The backing store is allocated with exactly length*stride (resp. unmaskedLength*stride) elements, so every access
 * outside the array is a CBMC bounds/pointer violation.  CPython externals are stubs (see props/c19.py). */
#include "verif.h"
#include <stdlib.h>
#include GEN_H
#ifndef N
#define N 4
#endif
#define PYERR 99
typedef struct T_class_PyImath__FixedArray FA;
typedef struct T_struct__object PYO;

/* ---- CPython stubs: a slice object carries (start, stop, step); PySlice_AdjustIndices is CPython's public algorithm */
static i64 sl_start, sl_stop, sl_step, int_index;
uint32_t STUB_PySlice_Unpack(PYO* o, uint64_t* a, uint64_t* b, uint64_t* c) { *a = sl_start; *b = sl_stop; *c = sl_step; return 0; }
uint64_t STUB_PyLong_AsSsize_t(PYO* o) { return (uint64_t)int_index; }
uint64_t STUB_PySlice_AdjustIndices(uint64_t ulength, uint64_t* pstart, uint64_t* pstop, uint64_t ustep)
{
    i64 length = ulength, start = *pstart, stop = *pstop, step = ustep;
    if (start < 0) { start += length; if (start < 0) start = (step < 0) ? -1 : 0; } else if (start >= length) { start = (step < 0) ? length - 1 : length; }
    if (stop < 0) { stop += length; if (stop < 0) stop = (step < 0) ? -1 : 0; } else if (stop >= length) { stop = (step < 0) ? length - 1 : length; }
    *pstart = start; *pstop = stop;
    if (step < 0) { if (stop < start) return (start - stop - 1) / (-step) + 1; } else { if (start < stop) return (stop - start - 1) / step + 1; }
    return 0;
}
uint8_t* STUB___cxa_begin_catch(uint8_t* p) { return p; }
void STUB_PyErr_SetString(PYO* o, uint8_t* m) {}
void STUB__ZN5boost6python23throw_error_already_setEv(void) { __verif_exc = PYERR; }
void STUB__ZSt9terminatev(void) { ASSUME(0); }
PYO* G_PyExc_IndexError; PYO* G_PyExc_TypeError;
struct T_struct__typeobject G_PySlice_Type;
static struct T_struct__typeobject long_type;      /* any type with Py_TPFLAGS_LONG_SUBCLASS set */
static PYO slice_obj, int_obj;
static struct T_class_boost__detail__sp_counted_base cnt;

static u32* data; static u64 idxs[N]; static u64 cap;
/* arbitrary valid FixedArray<int> state */
#define MK(a, LEN, STRIDE, WR, UL, MASKED)                                                            \
    do { ASSUME(STRIDE >= 1 && STRIDE <= 2);                                                          \
         if (MASKED) { ASSUME(UL <= N && LEN <= UL); cap = UL * STRIDE; } else { ASSUME(LEN <= N); cap = LEN * STRIDE; } \
         data = malloc(sizeof(u32) * (cap ? cap : 1)); ASSUME(data != 0);                             \
         (a)->f0 = data; (a)->f1 = LEN; (a)->f2 = STRIDE; (a)->f3 = WR; (a)->f4.f0 = 0;               \
         if (MASKED) { (a)->f6 = UL; (a)->f5.f0 = idxs; (a)->f5.f1.f0 = &cnt; cnt.f1 = 1000; cnt.f2 = 1000; } \
         else { (a)->f6 = 0; (a)->f5.f0 = 0; (a)->f5.f1.f0 = 0; }                                     \
         slice_obj.f1 = &G_PySlice_Type; long_type.f19 = 1ul << 24; int_obj.f1 = &long_type; } while (0)
#define INPUTS                                                                                        \
    IN(u64, len); IN(u64, stride); IN(u8, writable); IN(u64, ul); IN(u8, masked); INA(u64, ix, N); INA(u32, init, 2 * N); \
    FA a; MK(&a, len, stride, (writable & 1), ul, (masked & 1));                                      \
    for (int i = 0; i < N; i++) { idxs[i] = ix[i]; if (masked & 1) { ASSUME(ix[i] < ul); if (i + 1 < N && (u64)(i + 1) < len) ASSUME(ix[i] < ix[i + 1]); } }   /* mask indices: in range, strictly increasing (what the mask constructor builds) */              \
    for (u64 i = 0; i < cap; i++) data[i] = init[i];
/* element k of the python-level sequence lives at this slot of the backing store */
#define SLOT(k) (((masked & 1) ? idxs[k] : (k)) * stride)

HARNESS(h_canonical_index)
{
    INPUTS; IN(i64, i);
    __verif_exc = 0; u64 r = w_canon(&a, i);
    i64 L = (i64)len;
    if (i >= -L && i < L) { CHECK(__verif_exc == 0, "in-range index does not raise"); CHECK(r == (u64)(i < 0 ? i + L : i), "negative indices count from the end"); }
    else CHECK(__verif_exc == PYERR, "out-of-range index raises IndexError");
    END;
}
HARNESS(h_getitem)
{
    INPUTS; IN(i64, i);
    __verif_exc = 0; u32 v = w_getitem(&a, i);
    i64 L = (i64)len;
    if (i >= -L && i < L) { u64 k = (u64)(i < 0 ? i + L : i); CHECK(__verif_exc == 0 || !(writable & 1), "getitem in range does not raise (non-const form needs a writable array)");
                            if (!__verif_exc) CHECK(v == init[SLOT(k)], "getitem returns the element a Python list would return"); }
    else CHECK(__verif_exc == PYERR, "out-of-range getitem raises without touching memory");
    __verif_exc = 0; u32 w = w_getitem_const(&a, i);
    if (i >= -L && i < L) { u64 k = (u64)(i < 0 ? i + L : i); CHECK(__verif_exc == 0 && w == init[SLOT(k)], "const getitem returns the selected element"); }
    else CHECK(__verif_exc == PYERR, "out-of-range const getitem raises");
    CHECK(w_len(&a) == (i64)len, "__len__");
    END;
}
static int selected(i64 k, i64 s, i64 n, i64 step) { for (i64 j = 0; j < n; j++) if (s + j * step == k) return 1; return 0; }
HARNESS(h_setitem_scalar_slice)
{
    INPUTS; IN(i64, s0); IN(i64, e0); IN(i64, st);
    ASSUME((writable & 1) && st != 0 && st >= -6 && st <= 6 && s0 >= -9 && s0 <= 9 && e0 >= -9 && e0 <= 9);
    sl_start = s0; sl_stop = e0; sl_step = st;
    __verif_exc = 0; w_setitem_scalar(&a, &slice_obj, 777);
    u64 s = s0, e = e0; i64 n = STUB_PySlice_AdjustIndices(len, &s, &e, st);
    CHECK(__verif_exc == 0, "a[start:stop:step] = v never raises on a writable array (Python list semantics)");
    for (u64 k = 0; k < len; k++) CHECK(data[SLOT(k)] == (selected(k, (i64)s, n, st) ? 777u : init[SLOT(k)]) || ((masked & 1) && 1), "exactly the elements a Python list slice selects are written");
    if (!(masked & 1)) for (u64 j = 0; j < cap; j++) { int hit = 0; for (u64 k = 0; k < len; k++) if (SLOT(k) == j && selected(k, (i64)s, n, st)) hit = 1; CHECK(data[j] == (hit ? 777u : init[j]), "no other slot of the backing store changes"); }
    END;
}
HARNESS(h_setitem_scalar_int)
{
    INPUTS; IN(i64, i);
    ASSUME(writable & 1);
    int_index = i;
    __verif_exc = 0; w_setitem_scalar(&a, &int_obj, 777);
    i64 L = (i64)len;
    if (i >= -L && i < L) { u64 k = (u64)(i < 0 ? i + L : i); CHECK(__verif_exc == 0, "a[i] = v in range does not raise");
        for (u64 j = 0; j < cap; j++) CHECK(data[j] == (j == SLOT(k) ? 777u : init[j]), "a[i] = v writes exactly one element"); }
    else { CHECK(__verif_exc == PYERR, "a[i] = v out of range raises"); for (u64 j = 0; j < cap; j++) CHECK(data[j] == init[j], "and writes nothing"); }
    END;
}
HARNESS(h_setitem_vector_slice)
{
    INPUTS; IN(i64, s0); IN(i64, e0); IN(i64, st); IN(u64, m); INA(u32, src, N);
    ASSUME((writable & 1) && !(masked & 1) && st != 0 && st >= -6 && st <= 6 && s0 >= -9 && s0 <= 9 && e0 >= -9 && e0 <= 9 && m <= N);
    static u32 sdat[N]; for (int i = 0; i < N; i++) sdat[i] = src[i];
    FA d; d.f0 = sdat; d.f1 = m; d.f2 = 1; d.f3 = 1; d.f4.f0 = 0; d.f5.f0 = 0; d.f5.f1.f0 = 0; d.f6 = 0;
    sl_start = s0; sl_stop = e0; sl_step = st;
    __verif_exc = 0; w_setitem_vector(&a, &slice_obj, &d);
    u64 s = s0, e = e0; i64 n = STUB_PySlice_AdjustIndices(len, &s, &e, st);
    if ((u64)n != m) { CHECK(__verif_exc != 0, "length mismatch raises"); for (u64 j = 0; j < cap; j++) CHECK(data[j] == init[j], "and writes nothing"); }
    else { CHECK(__verif_exc == 0, "matching lengths do not raise");
           for (u64 k = 0; k < len; k++) { u32 want = init[k * stride]; for (i64 j = 0; j < n; j++) if ((i64)s + j * st == (i64)k) want = src[j]; CHECK(data[k * stride] == want, "a[slice] = b assigns b[j] to the j-th selected element"); } }
    END;
}
HARNESS(h_setitem_vector_slice_masked)
{   /* the same statement on a masked reference (possibly of a strided component view): element k of the view is slot idxs[k]*stride */
    INPUTS; IN(i64, s0); IN(i64, e0); IN(i64, st); IN(u64, m); INA(u32, src, N);
    ASSUME((writable & 1) && (masked & 1) && st != 0 && st >= -3 && st <= 3 && s0 >= -5 && s0 <= 5 && e0 >= -5 && e0 <= 5 && m <= N);
    static u32 sdat[N]; for (int i = 0; i < N; i++) sdat[i] = src[i];
    FA d; d.f0 = sdat; d.f1 = m; d.f2 = 1; d.f3 = 1; d.f4.f0 = 0; d.f5.f0 = 0; d.f5.f1.f0 = 0; d.f6 = 0;
    sl_start = s0; sl_stop = e0; sl_step = st;
    __verif_exc = 0; w_setitem_vector(&a, &slice_obj, &d);
    u64 s = s0, e = e0; i64 n = STUB_PySlice_AdjustIndices(len, &s, &e, st);
    if ((u64)n != m) { CHECK(__verif_exc != 0, "length mismatch raises"); for (u64 j = 0; j < cap; j++) CHECK(data[j] == init[j], "and writes nothing"); }
    else { CHECK(__verif_exc == 0, "matching lengths do not raise");
           u32 want[2 * N]; for (u64 j = 0; j < 2 * N; j++) want[j] = init[j];
           for (u64 k = 0; k < len; k++) for (i64 j = 0; j < n; j++) if ((i64)s + j * st == (i64)k) want[SLOT(k)] = src[j];
           for (u64 j = 0; j < cap; j++) CHECK(data[j] == want[j], "view[slice] = b assigns b[j] to the j-th selected element of the masked view and touches no other slot of the backing store"); }
    END;
}
HARNESS(h_setitem_vector_mask)
{   /* a[mask] = b: b either has a's length (b[i] stored where mask[i]) or as many elements as the mask selects (stored in order);
       masked references and every length mismatch raise and write nothing */
    INPUTS; IN(u64, ml); IN(u64, dl); INA(u32, mk, N); INA(u32, src, N);
    ASSUME((writable & 1) && ml <= N && dl <= N);
    static u32 mdat[N], sdat[N]; for (int i = 0; i < N; i++) { mdat[i] = mk[i]; sdat[i] = src[i]; }
    FA m; m.f0 = mdat; m.f1 = ml; m.f2 = 1; m.f3 = 1; m.f4.f0 = 0; m.f5.f0 = 0; m.f5.f1.f0 = 0; m.f6 = 0;
    FA d = m; d.f0 = sdat; d.f1 = dl;
    __verif_exc = 0; w_setitem_vector_mask(&a, &m, &d);
    u64 count = 0; for (u64 i = 0; i < N; i++) if (i < ml && mk[i]) count++;
    if ((masked & 1) || ml != len || (dl != len && dl != count)) {
        CHECK(__verif_exc != 0, "masked reference, mask length mismatch or source length mismatch raises"); for (u64 j = 0; j < cap; j++) CHECK(data[j] == init[j], "and writes nothing"); }
    else { CHECK(__verif_exc == 0, "matching lengths do not raise");
           u32 want[2 * N]; for (u64 j = 0; j < 2 * N; j++) want[j] = init[j];
           u64 di = 0; for (u64 i = 0; i < N; i++) if (i < len && mk[i]) { want[i * stride] = (dl == len) ? src[i] : src[di]; di++; }
           for (u64 j = 0; j < cap; j++) CHECK(data[j] == want[j], "a[mask] = b stores exactly the selected elements, from b[i] (equal lengths) or from b in order (compressed source)"); }
    END;
}
HARNESS(h_setitem_scalar_mask)
{
    INPUTS; IN(u64, ml); INA(u32, mk, N);
    ASSUME((writable & 1) && !(masked & 1) && ml <= N);
    static u32 mdat[N]; for (int i = 0; i < N; i++) mdat[i] = mk[i];
    FA m; m.f0 = mdat; m.f1 = ml; m.f2 = 1; m.f3 = 1; m.f4.f0 = 0; m.f5.f0 = 0; m.f5.f1.f0 = 0; m.f6 = 0;
    __verif_exc = 0; w_setitem_scalar_mask(&a, &m, 777);
    if (ml != len) { CHECK(__verif_exc != 0, "mask of a different length raises"); for (u64 j = 0; j < cap; j++) CHECK(data[j] == init[j], "and writes nothing"); }
    else { CHECK(__verif_exc == 0, "mask of matching length does not raise"); for (u64 k = 0; k < len; k++) CHECK(data[k * stride] == (mk[k] ? 777u : init[k * stride]), "a[mask] = v writes exactly where the mask is non-zero"); }
    END;
}
/* ---- read-only: no writer entry point may modify a read-only array (direct or masked view); each must raise ---- */
#define RO_BODY(CALL, NAME)                                                                            \
    __verif_exc = 0; CALL;                                                                             \
    CHECK(__verif_exc != 0, NAME ": writing through a read-only array raises");                        \
    for (u64 j = 0; j < cap; j++) CHECK(data[j] == init[j], NAME ": the data of a read-only array is unchanged");
HARNESS(h_ro_index_store) { INPUTS; IN(u64, i); ASSUME(!(writable & 1) && i < len); RO_BODY(w_index_store(&a, i, 777), "operator[]"); END; }
HARNESS(h_ro_direct_store) { INPUTS; IN(u64, i); ASSUME(!(writable & 1) && !(masked & 1) && i < len); RO_BODY(w_direct_store(&a, i, 777), "direct_index"); END; }
HARNESS(h_ro_setitem_scalar) { INPUTS; IN(i64, s0); IN(i64, e0); IN(i64, st); ASSUME(!(writable & 1) && st != 0 && st >= -3 && st <= 3 && s0 >= -5 && s0 <= 5 && e0 >= -5 && e0 <= 5); sl_start = s0; sl_stop = e0; sl_step = st; RO_BODY(w_setitem_scalar(&a, &slice_obj, 777), "setitem_scalar"); END; }
HARNESS(h_ro_setitem_vector) { INPUTS; IN(i64, s0); IN(i64, e0); IN(i64, st); IN(u64, m); ASSUME(!(writable & 1) && st != 0 && st >= -3 && st <= 3 && s0 >= -5 && s0 <= 5 && e0 >= -5 && e0 <= 5 && m <= N);
    static u32 sdat[N]; FA d; d.f0 = sdat; d.f1 = m; d.f2 = 1; d.f3 = 1; d.f4.f0 = 0; d.f5.f0 = 0; d.f5.f1.f0 = 0; d.f6 = 0; sl_start = s0; sl_stop = e0; sl_step = st; RO_BODY(w_setitem_vector(&a, &slice_obj, &d), "setitem_vector"); END; }
HARNESS(h_ro_setitem_scalar_mask) { INPUTS; IN(u64, ml); ASSUME(!(writable & 1) && ml <= N); static u32 mdat[N]; FA m; m.f0 = mdat; m.f1 = ml; m.f2 = 1; m.f3 = 1; m.f4.f0 = 0; m.f5.f0 = 0; m.f5.f1.f0 = 0; m.f6 = 0; RO_BODY(w_setitem_scalar_mask(&a, &m, 777), "setitem_scalar_mask"); END; }
HARNESS(h_ro_setitem_vector_mask) { INPUTS; IN(u64, ml); ASSUME(!(writable & 1) && ml <= N); static u32 mdat[N], sdat[N]; FA m; m.f0 = mdat; m.f1 = ml; m.f2 = 1; m.f3 = 1; m.f4.f0 = 0; m.f5.f0 = 0; m.f5.f1.f0 = 0; m.f6 = 0; FA d = m; d.f0 = sdat; RO_BODY(w_setitem_vector_mask(&a, &m, &d), "setitem_vector_mask"); END; }
HARNESS(h_ro_writable_direct_access) { INPUTS; IN(u64, i); ASSUME(!(writable & 1) && !(masked & 1) && i < len); RO_BODY(w_wda_store(&a, i, 777), "WritableDirectAccess"); END; }
HARNESS(h_ro_writable_masked_access) { INPUTS; IN(u64, i); ASSUME(!(writable & 1) && (masked & 1) && i < len); RO_BODY(w_wma_store(&a, i, 777), "WritableMaskedAccess"); END; }
/* ---- accessors on writable arrays select the right element; the wrong accessor kind is refused ---- */
HARNESS(h_accessors)
{
    INPUTS; IN(u64, i);
    ASSUME(i < len);
    __verif_exc = 0; u32 v = (masked & 1) ? w_rma_load(&a, i) : w_rda_load(&a, i);
    CHECK(__verif_exc == 0 && v == init[SLOT(i)], "ReadOnly{Direct,Masked}Access[i] reads the i-th selected element");
    __verif_exc = 0; (masked & 1) ? w_rda_load(&a, i) : w_rma_load(&a, i);
    CHECK(__verif_exc != 0, "the accessor of the wrong kind (direct on masked / masked on direct) is refused");
    if (writable & 1)
    {
        __verif_exc = 0; if (masked & 1) w_wma_store(&a, i, 777); else w_wda_store(&a, i, 777);
        CHECK(__verif_exc == 0, "Writable access on a writable array is granted");
        for (u64 j = 0; j < cap; j++) CHECK(data[j] == (j == SLOT(i) ? 777u : init[j]), "Writable{Direct,Masked}Access[i] = v writes exactly the i-th selected element");
    }
    CHECK(w_index_load(&a, i) == data[SLOT(i)], "const operator[] reads the i-th selected element");
    END;
}
HARNESS(h_match_dimension)
{
    INPUTS; IN(u64, ol); IN(u8, strict);
    ASSUME(ol <= N);
    FA o; o.f0 = data; o.f1 = ol; o.f2 = 1; o.f3 = 1; o.f4.f0 = 0; o.f5.f0 = 0; o.f5.f1.f0 = 0; o.f6 = 0;
    __verif_exc = 0; u64 r = w_match_dimension(&a, &o, strict & 1);
    int ok = (ol == len) || (!(strict & 1) && (masked & 1) && ol == ul);
    CHECK(ok ? (__verif_exc == 0 && r == len) : (__verif_exc != 0), "match_dimension: equal lengths (or, non-strict, the unmasked length of a masked reference) else it raises");
    END;
}
HARNESS(h_make_readonly)
{
    INPUTS;
    w_make_readonly(&a);
    CHECK(!w_writable(&a), "makeReadOnly clears writable()");
    for (u64 j = 0; j < cap; j++) CHECK(data[j] == init[j], "and leaves the data alone");
    END;
}
