// Native replay for C19 counterexamples: embedded CPython + the real PyImath headers.
// The FixedArray is rebuilt through its PUBLIC constructors from the solver's inputs, the real method is called with
// real Python objects, and the outcome is compared with what Python itself does on an equivalent list.
// usage: replay <harness function> <inputs file>      exit 1 + "REPLAY-FAIL ..." iff the violation reproduces
#include <Python.h>
#include <PyImathFixedArray.h>
#include <boost/python.hpp>
#include <map>
#include <string>
#include <vector>
#include <cstdio>
#include <cstring>
namespace PyImath { template <> int FixedArrayDefaultValue<int>::value () { return 0; } }   // as in PyImathFixedArray.cpp
using namespace PyImath;
typedef FixedArray<int> IA;
static std::map<std::string, unsigned long long> in;
static long long S (const char* k) { return (long long) in[k]; }
static unsigned long long U (const char* k) { return in[k]; }
static unsigned long long UI (const char* k, int i) { char b[64]; snprintf (b, sizeof b, "%s[%d]", k, i); return in[b]; }
static int fail (const char* m) { printf ("REPLAY-FAIL %s\n", m); return 1; }

template <class F> static int run (F f)
{   // 0 = returned, 1 = python error set, 2 = C++ std exception
    try { f (); }
    catch (boost::python::error_already_set&) { PyErr_Clear (); return 1; }
    catch (std::exception&) { return 2; }
    return 0;
}

int main (int argc, char** argv)
{
    if (argc < 3) return 2;
    std::string fn = argv[1];
    FILE* f = fopen (argv[2], "r"); if (!f) return 2;
    char nm[96]; unsigned long long v;
    while (fscanf (f, "%95s %llx", nm, &v) == 2) if (!in.count (nm)) in[nm] = v;
    fclose (f);
    Py_Initialize ();
    const int N = 8;
    size_t len = U ("len"), stride = U ("stride"), ul = U ("ul"); bool writable = U ("writable") & 1, masked = U ("masked") & 1;
    size_t cap = (masked ? ul : len) * stride;
    std::vector<int> store (cap ? cap : 1), init (cap ? cap : 1);
    for (size_t j = 0; j < cap; j++) init[j] = store[j] = (int) UI ("init", (int) j);
    // the array under test, through public constructors only
    IA under (store.data (), masked ? ul : len, stride, writable);
    IA maskarr (masked ? ul : 0);
    std::vector<size_t> idx;
    if (masked) { for (size_t j = 0; j < ul; j++) maskarr[j] = 0; for (size_t k = 0; k < len; k++) { idx.push_back (UI ("ix", (int) k)); maskarr[UI ("ix", (int) k)] = 1; } }
    IA view = masked ? IA (under, maskarr) : under;
    if ((size_t) view.len () != len) { printf ("REPLAY-SKIP mask indices are not strictly increasing: state not constructible through the public API\n"); return 0; }
    auto slot = [&] (size_t k) { return (masked ? idx[k] : k) * stride; };
    auto changed = [&] () { for (size_t j = 0; j < cap; j++) if (store[j] != init[j]) return true; return false; };
    // python-list oracle helpers
    auto selected = [&] (long long s0, long long e0, long long st) {
        std::vector<size_t> sel; PyObject *a = PyLong_FromLongLong (s0), *b = PyLong_FromLongLong (e0), *c = PyLong_FromLongLong (st);
        PyObject* sl = PySlice_New (a, b, c); Py_ssize_t s, e, step, n;
        PySlice_GetIndicesEx (sl, (Py_ssize_t) len, &s, &e, &step, &n);
        for (Py_ssize_t j = 0; j < n; j++) sel.push_back ((size_t) (s + j * step));
        return std::make_pair (sel, sl); };
    int rc = 0;
    if (fn == "h_canonical_index" || fn == "h_getitem")
    {
        long long i = S ("i"); long long L = (long long) len; size_t r = 0; int val = 0;
        int ex = run ([&] { r = view.canonical_index (i); const IA& cv = view; val = cv.getitem (i); });
        if (i >= -L && i < L) { size_t k = (size_t) (i < 0 ? i + L : i); if (ex) rc = fail ("in-range index raised"); else if (r != k) rc = fail ("canonical_index differs from Python"); else if (val != init[slot (k)]) rc = fail ("getitem returned the wrong element"); }
        else if (!ex) rc = fail ("out-of-range index did not raise");
    }
    else if (fn == "h_setitem_scalar_slice" || fn == "h_ro_setitem_scalar")
    {
        auto ps = selected (S ("s0"), S ("e0"), S ("st"));
        int ex = run ([&] { view.setitem_scalar (ps.second, 777); });
        if (!writable) { if (!ex) rc = fail ("read-only array: setitem_scalar did not raise"); else if (changed ()) rc = fail ("read-only array modified"); }
        else { if (ex) rc = fail ("a[start:stop:step] = v raised where a Python list does not");
               else { std::vector<int> want = init; for (size_t k : ps.first) want[slot (k)] = 777; if (want != store) rc = fail ("slice assignment wrote different elements than a Python list"); } }
    }
    else if (fn == "h_setitem_scalar_int")
    {
        long long i = S ("i"), L = (long long) len; PyObject* io = PyLong_FromLongLong (i);
        int ex = run ([&] { view.setitem_scalar (io, 777); });
        if (i >= -L && i < L) { std::vector<int> want = init; want[slot ((size_t) (i < 0 ? i + L : i))] = 777; if (ex) rc = fail ("a[i] = v raised in range"); else if (want != store) rc = fail ("a[i] = v wrote the wrong element"); }
        else if (!ex) rc = fail ("a[i] = v out of range did not raise"); else if (changed ()) rc = fail ("failed a[i] = v modified the array");
    }
    else if (fn == "h_setitem_vector_slice" || fn == "h_setitem_vector_slice_masked" || fn == "h_ro_setitem_vector")
    {
        auto ps = selected (S ("s0"), S ("e0"), S ("st")); size_t m = U ("m");
        IA src (m); for (size_t j = 0; j < m; j++) src[j] = (int) UI ("src", (int) j);
        int ex = run ([&] { view.setitem_vector (ps.second, src); });
        if (!writable) { if (!ex) rc = fail ("read-only array: setitem_vector did not raise"); else if (changed ()) rc = fail ("read-only array modified"); }
        else if (ps.first.size () != m) { if (!ex) rc = fail ("length mismatch did not raise"); else if (changed ()) rc = fail ("failed assignment modified the array"); }
        else { if (ex) rc = fail ("a[slice] = b raised although a Python list accepts it (lengths match)");
               else { std::vector<int> want = init; for (size_t j = 0; j < m; j++) want[slot (ps.first[j])] = src[j]; if (want != store) rc = fail ("a[slice] = b assigned different elements than a Python list"); } }
    }
    else if (fn == "h_setitem_scalar_mask" || fn == "h_ro_setitem_scalar_mask")
    {
        size_t ml = U ("ml"); IA mk (ml); for (size_t j = 0; j < ml; j++) mk[j] = (int) UI ("mk", (int) j);
        int ex = run ([&] { view.setitem_scalar_mask (mk, 777); });
        if (!writable) { if (!ex) rc = fail ("read-only array: setitem_scalar_mask did not raise"); else if (changed ()) rc = fail ("read-only array modified"); }
        else if (ml != len) { if (!ex) rc = fail ("mask length mismatch did not raise"); }
        else { std::vector<int> want = init; for (size_t k = 0; k < len; k++) if (mk[k]) want[slot (k)] = 777; if (ex) rc = fail ("a[mask] = v raised"); else if (want != store) rc = fail ("a[mask] = v wrote different elements"); }
    }
    else if (fn == "h_setitem_vector_mask")
    {
        size_t ml = U ("ml"), dl = U ("dl"); IA mk (ml), src (dl); size_t count = 0;
        for (size_t j = 0; j < ml; j++) { mk[j] = (int) UI ("mk", (int) j); if (mk[j]) count++; }
        for (size_t j = 0; j < dl; j++) src[j] = (int) UI ("src", (int) j);
        int ex = run ([&] { view.setitem_vector_mask (mk, src); });
        if (masked || ml != len || (dl != len && dl != count)) { if (!ex) rc = fail ("a[mask] = b with a masked reference or mismatched lengths did not raise"); else if (changed ()) rc = fail ("failed a[mask] = b modified the array"); }
        else { std::vector<int> want = init; size_t di = 0; for (size_t k = 0; k < len; k++) if (mk[k]) { want[slot (k)] = dl == len ? src[k] : src[di]; di++; }
               if (ex) rc = fail ("a[mask] = b raised although the lengths match"); else if (want != store) rc = fail ("a[mask] = b stored different elements"); }
    }
    else if (fn == "h_ro_index_store" || fn == "h_ro_direct_store" || fn == "h_ro_writable_direct_access" || fn == "h_ro_writable_masked_access")
    {
        size_t i = U ("i"); int ex = 0;
        if (fn == "h_ro_index_store") ex = run ([&] { view[i] = 777; });
        else if (fn == "h_ro_direct_store") ex = run ([&] { view.direct_index (i) = 777; });
        else if (fn == "h_ro_writable_direct_access") ex = run ([&] { IA::WritableDirectAccess acc (view); acc[i] = 777; });
        else ex = run ([&] { IA::WritableMaskedAccess acc (view); acc[i] = 777; });
        if (changed ()) rc = fail ("a read-only array was modified through the accessor"); else if (!ex) rc = fail ("writing through a read-only array did not raise");
    }
    else { printf ("REPLAY-SKIP no native replay for %s\n", fn.c_str ()); return 0; }
    if (!rc) printf ("REPLAY-RESULT holds\n");
    return rc;
}
