// Native replay for the buffer-import obligations: the real fixedArrayFromBuffer on a real Python exporter
// (bytes reshaped with memoryview.cast to the counterexample's format / shape), built with AddressSanitizer.
// usage: replay_import <inputs file> f|v3f      inputs: lines "name hexvalue" from the CBMC trace (ndim s0 s1 isz f0 bytes[k])
#include <Python.h>
#include <PyImathBufferProtocol.cpp>
#include <cstdio>
#include <cstdlib>
#include <cstring>
#include <map>
#include <string>
using namespace PyImath;
using namespace IMATH_NAMESPACE;
template <> float PyImath::FixedArrayDefaultValue<float>::value () { return 0; }
template <> Vec3<float> PyImath::FixedArrayDefaultValue<Vec3<float> >::value () { return Vec3<float> (0); }
static std::map<std::string, unsigned long long> in;
template <class A> static int go (char fmtc, size_t elsz)
{
    unsigned ndim = in["ndim"], isz = in["isz"]; size_t s0 = in["s0"], s1 = ndim == 1 ? 1 : in["s1"]; char f0 = (char) in["f0"];
    size_t nbytes = s0 * s1 * isz;
    std::string raw (nbytes, '\0');
    for (size_t k = 0; k < nbytes; k++) { char key[32]; snprintf (key, sizeof key, "bytes[%zu]", k); raw[k] = (char) in[key]; }
    Py_Initialize ();
    if (f0 == '>') { printf ("REPLAY-RESULT holds (byte-order prefix: rejected by both)\n"); return 0; }
    PyObject* b = PyBytes_FromStringAndSize (raw.data (), raw.size ());
    PyObject* mv = PyMemoryView_FromObject (b);
    char fmt[2] = { f0, 0 };
    PyObject* shape = ndim == 1 ? Py_BuildValue ("(n)", (Py_ssize_t) s0) : Py_BuildValue ("(nn)", (Py_ssize_t) s0, (Py_ssize_t) s1);
    PyObject* cast = PyObject_CallMethod (mv, "cast", "sO", fmt, shape);
    if (!cast) { PyErr_Print (); printf ("REPLAY-RESULT holds (CPython cannot build this exporter)\n"); return 0; }
    printf ("exporter: format '%c' itemsize %u ndim %u shape (%zu,%zu) len %zu  ->  FixedArray element size %zu\n", f0, isz, ndim, s0, s1, nbytes, elsz);
    A* a = 0;
    try { a = fixedArrayFromBuffer<A> (cast); }
    catch (std::exception& e) { printf ("raised: %s\nREPLAY-RESULT holds (rejected)\n", e.what ()); return 0; }
    if (f0 != fmtc) { printf ("REPLAY-FAIL accepted a buffer of format '%c' for an array of '%c' elements\n", f0, fmtc); return 1; }
    if (nbytes != s0 * elsz) { printf ("REPLAY-FAIL accepted a buffer of %zu bytes for an array of %zu elements of %zu bytes\n", nbytes, s0, elsz); return 1; }
    if ((size_t) a->len () != s0 || memcmp (&a->direct_index (0), raw.data (), nbytes) != 0) { printf ("REPLAY-FAIL array does not hold the source elements\n"); return 1; }
    printf ("REPLAY-RESULT holds\n"); return 0;
}
int main (int argc, char** argv)
{
    FILE* f = fopen (argv[1], "r"); char name[128]; unsigned long long v;
    while (f && fscanf (f, "%127s %llx", name, &v) == 2) in[name] = v;
    std::string tag = argv[2];
    if (tag == "f") return go<FixedArray<float> > ('f', 4);
    return go<FixedArray<Vec3<float> > > ('f', 12);
}
