/* C04-O4: operator<< for the aggregates, structurally.  libstdc++'s formatting primitives are stubs that append events
 * to a trace: CHAR(c) for every character the Imath code emits, NUM(value) for every number it hands to the stream.
 * Decided for all component values: '(' first, ')' last, one NUM per component in declaration order (matrices row by
 * row), consecutive numbers separated by at least one whitespace character and nothing else, a newline exactly at row
 * boundaries of a matrix.  How libstdc++ renders a number is outside.  The stream object is a harness-made block with
 * arbitrary format state (width / flags / precision are arbitrary values). */
#include "verif.h"
#include GEN_H
typedef struct T_class_std__basic_ostream OS;
#define MAXEV 96
static int nev; static u8 evkind[MAXEV]; static u64 evval[MAXEV];
static void ev(u8 k, u64 v) { if (nev < MAXEV) { evkind[nev] = k; evval[nev] = v; } nev++; }
OS* STUB__ZNSo3putEc(OS* os, u8 c) { ev(0, c); return os; }
OS* STUB__ZSt16__ostream_insertIcSt11char_traitsIcEERSt13basic_ostreamIT_T0_ES6_PKS3_l(OS* os, u8* s, u64 n) { for (u64 i = 0; i < n && i < 8; i++) ev(0, s[i]); return os; }
OS* STUB__ZNSo9_M_insertIdEERSoT_(OS* os, f64 d) { ev(1, f64_bits(d)); return os; }
OS* STUB__ZNSolsEi(OS* os, u32 i) { ev(2, (u64)(i64)(i32)i); return os; }
/* a stream object: vptr whose slot -3 (vbase offset) says where the ios_base part starts; its fields are arbitrary */
static u64 vtab[8]; static u64 osmem[64];
static OS* mkstream(u64 w, u64 fl, u64 pr) { vtab[1] = 64; osmem[0] = (u64)(void*)&vtab[4]; osmem[8 + 1] = pr; osmem[8 + 2] = w; osmem[8 + 3] = fl; nev = 0; return (OS*)(void*)osmem; }

/* check the trace against the N expected numbers; cols = row length (0: not a matrix) */
static void check_trace(const u64* want, const u8* kinds, int n, int cols)
{
    CHECK(nev >= 2 && nev <= MAXEV, "trace fits");
    CHECK(evkind[0] == 0 && evval[0] == '(', "output starts with '('");
    int last = nev - 1;
    while (last > 0 && last < MAXEV && evkind[last] == 0 && (evval[last] == '\n' || evval[last] == ' ')) last--;      /* matrices end with ")\n" */
    CHECK(evkind[last] == 0 && evval[last] == ')', "output ends with ')' (optionally followed by whitespace)");
    int k = 0, ws = 0, nl = 0;
    for (int i = 1; i < last && i < MAXEV; i++)
    {
        if (evkind[i] == 0)
        {
            CHECK(evval[i] == ' ' || evval[i] == '\n', "only whitespace between the parentheses besides the numbers");
            ws++; if (evval[i] == '\n') nl++;
        }
        else
        {
            CHECK(k < n, "no more numbers than components");
            if (k < n) { CHECK(evkind[i] == kinds[k] && evval[i] == want[k], "the k-th number is component k (declaration order, matrices row-major)"); }
            if (k > 0) { CHECK(ws >= 1, "consecutive components are separated by whitespace (one token per component)");
                         if (cols) CHECK((k % cols == 0) ? nl >= 1 : nl == 0, "matrices: a newline exactly at each row boundary"); else CHECK(nl == 0, "vectors, colours, shears, quaternions print on one line"); }
            else CHECK(nl == 0, "no newline before the first component");
            k++; ws = 0; nl = 0;
        }
    }
    CHECK(k == n, "exactly one number per component");
    CHECK(nl == 0, "no newline before ')'");
}
#define PRF(TAG, N, COLS) HARNESS(h_print_##TAG) { INA(f32, a, N); IN(u64, w); IN(u64, fl); IN(u64, pr); OS* os = mkstream(w, fl, pr); \
    w_print_##TAG(os, a); u64 want[N]; u8 kd[N]; for (int i = 0; i < N; i++) { want[i] = f64_bits((f64)a[i]); kd[i] = 1; } check_trace(want, kd, N, COLS); END; }
#define PRD(TAG, N, COLS) HARNESS(h_print_##TAG) { INA(f64, a, N); IN(u64, w); IN(u64, fl); IN(u64, pr); OS* os = mkstream(w, fl, pr); \
    w_print_##TAG(os, a); u64 want[N]; u8 kd[N]; for (int i = 0; i < N; i++) { want[i] = f64_bits(a[i]); kd[i] = 1; } check_trace(want, kd, N, COLS); END; }
#define PRI(TAG, N, COLS) HARNESS(h_print_##TAG) { INA(i32, a, N); IN(u64, w); IN(u64, fl); IN(u64, pr); OS* os = mkstream(w, fl, pr); \
    w_print_##TAG(os, (void*)a); u64 want[N]; u8 kd[N]; for (int i = 0; i < N; i++) { want[i] = (u64)(i64)a[i]; kd[i] = 2; } check_trace(want, kd, N, COLS); END; }
PRF(V2f, 2, 0) PRF(V3f, 3, 0) PRF(V4f, 4, 0) PRI(V2i, 2, 0) PRD(V3d, 3, 0) PRF(C3f, 3, 0) PRF(C4f, 4, 0) PRF(S6f, 6, 0) PRD(S6d, 6, 0) PRF(Qf, 4, 0) PRD(Qd, 4, 0)
PRF(M22f, 4, 2) PRF(M33f, 9, 3) PRF(M44f, 16, 4) PRD(M44d, 16, 4)
