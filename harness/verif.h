/* Harness conventions shared by CBMC runs and native replays.
 *   IN(T,x) / INA(T,x,n)  declare a symbolic input (T one of u8 u16 u32 u64 i8 i16 i32 i64 f32 f64)
 *   ASSUME(c)             input precondition (part of the claim, listed in evidence)
 *   CHECK(c,"id")         the property
 *   END                   reachability witness: with -DWITNESS this assert(0) must FAIL
 * Under CBMC the inputs are nondeterministic; natively (-DVERIF_REPLAY) they are read from a
 * counterexample file produced from the solver's trace, and the same predicates are evaluated
 * against the natively compiled real code. */
#ifndef VERIF_H
#define VERIF_H
#include <stdint.h>
#include <string.h>
#include <math.h>
typedef uint8_t u8; typedef uint16_t u16; typedef uint32_t u32; typedef uint64_t u64;
typedef int8_t i8; typedef int16_t i16; typedef int32_t i32; typedef int64_t i64;
typedef float f32; typedef double f64;
#ifdef __CPROVER__
u8 nondet_u8(void); u16 nondet_u16(void); u32 nondet_u32(void); u64 nondet_u64(void);
i8 nondet_i8(void); i16 nondet_i16(void); i32 nondet_i32(void); i64 nondet_i64(void);
f32 nondet_f32(void); f64 nondet_f64(void);
/* uninterpreted FP operations (same symbols as ll2c emits in uf mode) */
float __CPROVER_uninterpreted_fadd_float(float, float); float __CPROVER_uninterpreted_fsub_float(float, float);
float __CPROVER_uninterpreted_fmul_float(float, float); float __CPROVER_uninterpreted_fdiv_float(float, float);
double __CPROVER_uninterpreted_fadd_double(double, double); double __CPROVER_uninterpreted_fsub_double(double, double);
double __CPROVER_uninterpreted_fmul_double(double, double); double __CPROVER_uninterpreted_fdiv_double(double, double);
#define IN(T, x) T x = nondet_##T()
#define INA(T, x, n) T x[n]; for (int i_##x = 0; i_##x < (n); i_##x++) x[i_##x] = nondet_##T()
#define ASSUME(c) __CPROVER_assume(c)
#define CHECK(c, id) __CPROVER_assert((c), id)
#ifdef WITNESS
#define END __CPROVER_assert(0, "WITNESS")
#else
#define END ((void)0)
#endif
#define HARNESS(name) void name(void)
#else
#include <stdio.h>
#include <stdlib.h>
extern int verif_fail;
void verif_in(const char* name, int idx, void* p, int size);
#define IN(T, x) T x; verif_in(#x, -1, &x, sizeof x)
#define INA(T, x, n) T x[n]; for (int i_##x = 0; i_##x < (n); i_##x++) verif_in(#x, i_##x, &x[i_##x], sizeof x[0])
#define ASSUME(c) do { if (!(c)) { printf("REPLAY-ASSUME-FALSE %s\n", #c); exit(3); } } while (0)
#define CHECK(c, id) do { if (!(c)) { printf("REPLAY-FAIL %s\n", id); verif_fail = 1; } } while (0)
#define END ((void)0)
#define HARNESS(name) void name(void)
#endif
/* commutative uninterpreted + and * (same definition as ll2c emits; whichever comes first wins) */
#ifndef VERIF_CUF
#define VERIF_CUF
#ifdef __CPROVER__
static inline float verif_uf_fadd_float(float a, float b) { union { float f; uint32_t u; } x, y; x.f = a; y.f = b; return x.u <= y.u ? __CPROVER_uninterpreted_fadd_float(a, b) : __CPROVER_uninterpreted_fadd_float(b, a); }
static inline float verif_uf_fmul_float(float a, float b) { union { float f; uint32_t u; } x, y; x.f = a; y.f = b; return x.u <= y.u ? __CPROVER_uninterpreted_fmul_float(a, b) : __CPROVER_uninterpreted_fmul_float(b, a); }
static inline double verif_uf_fadd_double(double a, double b) { union { double f; uint64_t u; } x, y; x.f = a; y.f = b; return x.u <= y.u ? __CPROVER_uninterpreted_fadd_double(a, b) : __CPROVER_uninterpreted_fadd_double(b, a); }
static inline double verif_uf_fmul_double(double a, double b) { union { double f; uint64_t u; } x, y; x.f = a; y.f = b; return x.u <= y.u ? __CPROVER_uninterpreted_fmul_double(a, b) : __CPROVER_uninterpreted_fmul_double(b, a); }
#else
static inline float verif_uf_fadd_float(float a, float b) { return a + b; }
static inline float verif_uf_fmul_float(float a, float b) { return a * b; }
static inline double verif_uf_fadd_double(double a, double b) { return a + b; }
static inline double verif_uf_fmul_double(double a, double b) { return a * b; }
#endif
#endif
/* fixed ids of the exception model (vf/ll2c.py EXC_IDS, wrappers/verif_wrap.h) */
#define VERIF_EXC__ZTISt12domain_error 1
#define VERIF_EXC__ZTISt16invalid_argument 2
#define VERIF_EXC__ZTISt11logic_error 3
#define VERIF_EXC__ZTISt13runtime_error 4
#define VERIF_EXC__ZTISt12out_of_range 5
#define VERIF_EXC__ZTISt12length_error 6
#define VERIF_EXC__ZTISt14overflow_error 7
#define VERIF_EXC__ZTISt9exception 8
static inline u32 f32_bits(f32 f) { union { f32 f; u32 u; } x; x.f = f; return x.u; }
static inline u64 f64_bits(f64 f) { union { f64 f; u64 u; } x; x.f = f; return x.u; }
static inline f32 bits_f32(u32 u) { union { f32 f; u32 u; } x; x.u = u; return x.f; }
static inline f64 bits_f64(u64 u) { union { f64 f; u64 u; } x; x.u = u; return x.f; }
/* "identical result": same bits, or both NaN (NaN payload propagation is not fixed by C++/IEEE) */
static inline int same_f32(f32 a, f32 b) { return f32_bits(a) == f32_bits(b) || (a != a && b != b); }
static inline int same_f64(f64 a, f64 b) { return f64_bits(a) == f64_bits(b) || (a != a && b != b); }
static inline int fin_f32(f32 a) { return (f32_bits(a) & 0x7f800000u) != 0x7f800000u; }
static inline int fin_f64(f64 a) { return (f64_bits(a) & 0x7ff0000000000000ull) != 0x7ff0000000000000ull; }
#ifdef __CPROVER__
int __verif_exc; uint64_t __verif_exc_buf[32];   /* exception model state of the generated C (0 = none) */
#else
extern int __verif_exc;
#endif
#endif
