/* C08 engine B: IEEE-level facts about length() and the structure of the normalize family. */
#include "verif.h"
#include GEN_H
#if defined(__CPROVER__) && defined(UF_ARITH)
#define FDIVF(a, b) __CPROVER_uninterpreted_fdiv_float(a, b)
#else
#define FDIVF(a, b) ((a) / (b))
#endif

#define ZERO_IFF(N)                                                                                        \
    HARNESS(h_len_zero_iff_##N)                                                                            \
    {   /* finite components whose squares do not overflow: |c| <= 2^62 (sum of up to four squares stays finite) */ \
        INA(f32, v, N);                                                                                    \
        int allzero = 1;                                                                                   \
        for (int i = 0; i < N; i++) { ASSUME(v[i] >= -0x1p62f && v[i] <= 0x1p62f); if (v[i] != 0.0f) allzero = 0; } \
        f32 l = w_len##N##f((void*)v);                                                                     \
        CHECK((l == 0.0f) == allzero, "length() == 0 exactly for the zero vector");                        \
        CHECK(l == l && l >= 0.0f && fin_f32(l), "length() is a finite non-negative number");              \
        END; }
ZERO_IFF(2) ZERO_IFF(3) ZERO_IFF(4)

#define LEN2(N)                                                                                            \
    HARNESS(h_len2_is_dot_##N)                                                                             \
    {   INA(f32, v, N);                                                                                    \
        CHECK(same_f32(w_len2_##N##f((void*)v), w_dotself##N##f((void*)v)), "length2() == dot(v,v), identical bits"); \
        END; }
LEN2(2) LEN2(3) LEN2(4)

HARNESS(h_len_dim_embed_23)
{   /* the per-dimension copies of length()/lengthTiny agree: (x,y,0) in 3-D has the 2-D length, bit for bit */
    INA(f32, v, 2);
    f32 w[3] = { v[0], v[1], 0.0f };
    CHECK(same_f32(w_len3f((void*)w), w_len2f((void*)v)), "Vec3(x,y,0).length() == Vec2(x,y).length()");
    END;
}
HARNESS(h_len_dim_embed_34)
{
    INA(f32, v, 3);
    f32 w[4] = { v[0], v[1], v[2], 0.0f };
    CHECK(same_f32(w_len4f((void*)w), w_len3f((void*)v)), "Vec4(x,y,z,0).length() == Vec3(x,y,z).length()");
    END;
}

/* skeleton of the normalize family: every component is x_i / l with the SAME l = length() (a division, not a
   multiplication by a reciprocal); zero vector: untouched / zero / domain_error.  FP + - * / sqrt uninterpreted. */
#define SKEL(N)                                                                                            \
    HARNESS(h_normalize_skeleton_##N)                                                                      \
    {   INA(f32, v, N);                                                                                    \
        f32 r[N], e[N], nn[N], rd[N], ed[N], nd[N];                                                        \
        f32 l = w_len##N##f((void*)v);                                                                     \
        __verif_exc = 0; w_normalize##N##f((void*)v, (void*)r); CHECK(__verif_exc == 0, "normalize never throws"); \
        w_normalized##N##f((void*)v, (void*)rd);                                                           \
        w_normalizeExc##N##f((void*)v, (void*)e); int ex1 = __verif_exc; __verif_exc = 0;                  \
        w_normalizedExc##N##f((void*)v, (void*)ed); int ex2 = __verif_exc; __verif_exc = 0;                \
        w_normalizeNonNull##N##f((void*)v, (void*)nn); w_normalizedNonNull##N##f((void*)v, (void*)nd);     \
        CHECK((ex1 != 0) == (l == 0.0f) && (ex2 != 0) == (l == 0.0f), "normalizeExc/normalizedExc throw exactly when length() == 0"); \
        CHECK((ex1 == 0 || ex1 == VERIF_EXC__ZTISt12domain_error) && (ex2 == 0 || ex2 == VERIF_EXC__ZTISt12domain_error), "the exception is std::domain_error"); \
        for (int i = 0; i < N; i++)                                                                        \
        {   f32 q = FDIVF(v[i], l);                                                                        \
            if (l != 0.0f) { CHECK(same_f32(r[i], q) && same_f32(rd[i], q), "normalize/normalized: component == x_i / length()"); \
                             CHECK(same_f32(e[i], q) && same_f32(ed[i], q), "Exc forms: same quotient when they return"); } \
            else { CHECK(f32_bits(r[i]) == f32_bits(v[i]), "normalize of a zero-length vector leaves it untouched"); CHECK(rd[i] == 0.0f, "normalized of a zero-length vector is the zero vector"); } \
            CHECK(same_f32(nn[i], q) && same_f32(nd[i], q), "NonNull forms divide unconditionally by length()"); \
        }                                                                                                  \
        END; }
SKEL(2) SKEL(3) SKEL(4)

HARNESS(h_div_kernel)
{   /* the one-division kernel: |x| <= l, l normal  =>  |x/l| <= 1, finite, same sign */
    IN(f32, x); IN(f32, l);
    ASSUME(x == x && l == l && fin_f32(l) && l >= 0x1p-126f && fabsf(x) <= l);
    f32 q = x / l;
    CHECK(q == q && fabsf(q) <= 1.0f, "|x/l| <= 1 and not NaN");
    CHECK(x == 0.0f ? q == 0.0f : (x > 0.0f ? q >= 0.0f : q <= 0.0f), "sign never flipped (a quotient that underflows to zero is still on the right side)");
    END;
}

/* accuracy on the coordinate axes, IEEE bit-precise: a vector with one non-zero component c (position K) has length |c| to
   within 2 ulps.  RANGE 0: |c| < 2^-63 (c*c below 2*FLT_MIN or underflowing: the lengthTiny side of the dispatch),
   RANGE 1: 2^-63 <= |c| <= 2^62 (the sqrt side). */
#ifndef AXIS_K
#define AXIS_K 0
#endif
#ifndef AXIS_RANGE
#define AXIS_RANGE 0
#endif
#if defined(__CPROVER__) && defined(UF_DS)
/* division and sqrt uninterpreted, constrained by three IEEE facts (exact operations): a/a == 1 and +0/a == +0 for finite non-zero a, sqrt(1) == 1 */
#define AXIS_LEMMAS(a) if (a != 0) { ASSUME(__CPROVER_uninterpreted_fdiv_float(a, a) == 1.0f); ASSUME(f32_bits(__CPROVER_uninterpreted_fdiv_float(0.0f, a)) == 0); } \
                       ASSUME(__CPROVER_uninterpreted_sqrtf(1.0f) == 1.0f);
#else
#define AXIS_LEMMAS(a)
#endif
#define AXIS(N)                                                                                            \
    HARNESS(h_len_axis_##N)                                                                                \
    {   IN(f32, c);                                                                                        \
        f32 a = c < 0 ? -c : c; ASSUME(a == a);                                                            \
        if (AXIS_RANGE == 0) ASSUME(a < 0x1p-63f); else ASSUME(a >= 0x1p-63f && a <= 0x1p62f);             \
        f32 v[N]; for (int i = 0; i < N; i++) v[i] = (i == (AXIS_K < N ? AXIS_K : N - 1)) ? c : 0.0f;      \
        AXIS_LEMMAS(a)                                                                                     \
        f32 l = w_len##N##f((void*)v);                                                                     \
        CHECK(l == l && l >= 0.0f && fin_f32(l), "length() is a finite non-negative number");              \
        u32 bl = f32_bits(l), ba = f32_bits(a == 0 ? 0.0f : a);                                            \
        CHECK((bl >= ba ? bl - ba : ba - bl) <= 2, "length() of an axis vector is |c| to within 2 ulps (squares that are subnormal or underflow included)"); \
        END; }
AXIS(2) AXIS(3) AXIS(4)
