/* C17: divs/mods/divp/modp with LLVM nsw overflow assertions (ll2c --ubcheck) */
#include "verif.h"
#include GEN_H
#ifndef BND
#define BND 256
#endif
HARNESS(h_divs_mods)
{
    IN(i32, x); IN(i32, y);
    ASSUME(y != 0 && x >= -BND && x <= BND && y >= -BND && y <= BND);
    i32 q = (i32)w_divs(x, y), r = (i32)w_mods(x, y);
    CHECK(q == x / y && r == x % y, "divs/mods: truncating division");
    CHECK((i64)y * q + r == x, "x == y*divs + mods");
    END;
}
HARNESS(h_divp_modp)
{
    IN(i32, x); IN(i32, y);
    ASSUME(y != 0 && x >= -BND && x <= BND && y >= -BND && y <= BND);
    i32 q = (i32)w_divp(x, y), r = (i32)w_modp(x, y);
    i64 ay = y < 0 ? -(i64)y : y;
    CHECK((i64)y * q + r == x, "x == y*divp + modp");
    CHECK(r >= 0 && r < ay, "0 <= modp < |y|");
    END;
}
