/* C17: scalar utilities and colour packing (clang IR of wrappers/fun.cpp -> C). */
#include "verif.h"
#include GEN_H

#if defined(__CPROVER__) && defined(UF_ARITH)
#define FADD(a, b) verif_uf_fadd_float(a, b)
#define FSUB(a, b) __CPROVER_uninterpreted_fsub_float(a, b)
#define FMUL(a, b) verif_uf_fmul_float(a, b)
#define DADD(a, b) verif_uf_fadd_double(a, b)
#define DSUB(a, b) __CPROVER_uninterpreted_fsub_double(a, b)
#define DMUL(a, b) verif_uf_fmul_double(a, b)
#else
#define FADD(a, b) ((a) + (b))
#define FSUB(a, b) ((a) - (b))
#define FMUL(a, b) ((a) * (b))
#define DADD(a, b) ((a) + (b))
#define DSUB(a, b) ((a) - (b))
#define DMUL(a, b) ((a) * (b))
#endif
#ifdef __CPROVER__
float __CPROVER_uninterpreted_nextafterf(float, float);
double __CPROVER_uninterpreted_nextafter(double, double);
#define NEXTF(a, b) __CPROVER_uninterpreted_nextafterf(a, b)
#define NEXTD(a, b) __CPROVER_uninterpreted_nextafter(a, b)
#else
#define NEXTF(a, b) nextafterf(a, b)
#define NEXTD(a, b) nextafter(a, b)
#endif

HARNESS(h_floor_ceil_trunc_f)
{   /* every float of magnitude below 2^31 */
    IN(f32, x);
    ASSUME(x > -2147483648.0f && x < 2147483648.0f);
    f64 d = x;
    i32 f = (i32)w_floorf(x), c = (i32)w_ceilf(x), t = (i32)w_truncf(x);
    CHECK((f64)f <= d && d < (f64)f + 1.0, "floor: r <= x < r+1");
    CHECK((f64)c >= d && d > (f64)c - 1.0, "ceil: r-1 < x <= r");
    CHECK(x >= 0 ? ((f64)t <= d && d < (f64)t + 1.0) : ((f64)t >= d && d > (f64)t - 1.0), "trunc: toward zero, |x - r| < 1");
    END;
}
HARNESS(h_floor_ceil_trunc_d)
{
    IN(f64, x);
    ASSUME(x >= -2147483647.0 && x <= 2147483647.0);   /* results representable as int: for 2^31-1 < x < 2^31 the true ceil, 2^31, is not */
    i32 f = (i32)w_floord(x), c = (i32)w_ceild(x), t = (i32)w_truncd(x);
    CHECK((f64)f <= x && x < (f64)f + 1.0, "floor: r <= x < r+1");
    CHECK((f64)c >= x && x > (f64)c - 1.0, "ceil: r-1 < x <= r");
    CHECK(x >= 0 ? ((f64)t <= x && x < (f64)t + 1.0) : ((f64)t >= x && x > (f64)t - 1.0), "trunc: toward zero");
    END;
}
HARNESS(h_int_utils)
{
    IN(i32, a); IN(i32, b); IN(i32, t); IN(i32, l); IN(i32, h);
    ASSUME(a > -1073741824 && a < 1073741824 && b > -1073741824 && b < 1073741824);   /* no overflow in a-b, -a */
    i32 ab = (i32)w_absi(a);
    CHECK(ab >= 0 && (ab == a || ab == -a), "abs(int)");
    CHECK((i32)w_signi(a) == (a > 0) - (a < 0), "sign(int)");
    CHECK((i32)w_cmpi(a, b) == (a > b) - (a < b), "cmp(int)");
    i32 d = a - b; i32 ad = d < 0 ? -d : d;
    CHECK((i32)w_cmpti(a, b, t) == (ad <= t ? 0 : (a > b) - (a < b)), "cmpt(int)");
    CHECK(((i32)w_iszeroi(a, t) != 0) == (ab <= t), "iszero(int)");
    CHECK(((i32)w_eq_abs_i(a, b, t) != 0) == (ad <= t), "equalWithAbsError(int)");
    i32 c = (i32)w_clampi(a, l, h);
    if (l <= h) CHECK(c >= l && c <= h && ((a >= l && a <= h) ? c == a : (c == l || c == h)), "clamp(int) with l<=h");
    END;
}
HARNESS(h_float_sign_abs_clamp)
{
    IN(f32, a); IN(f32, t); IN(f32, l); IN(f32, h);
    ASSUME(a == a && t == t && l == l && h == h);
    CHECK(w_absf(a) == fabsf(a), "abs(float) == |a| (as a value)");
    CHECK((i32)w_signf(a) == (a > 0) - (a < 0), "sign(float)");
    CHECK(((i32)w_iszerof(a, t) != 0) == (fabsf(a) <= t), "iszero(float)");
    f32 c = w_clampf(a, l, h);
    if (l <= h) CHECK(c >= l && c <= h && ((a >= l && a <= h) ? c == a : (c == l || c == h)), "clamp(float) with l<=h");
    END;
}
HARNESS(h_float_cmp)
{   /* exact IEEE subtraction: the sign of a-b is the order of a and b for every non-NaN pair */
    IN(f32, a); IN(f32, b);
    ASSUME(a == a && b == b);
    CHECK((i32)w_cmpf(a, b) == (a > b) - (a < b), "cmp(float) for all non-NaN pairs");
    END;
}
HARNESS(h_float_tolerances)
{   /* structural: the same difference / product is compared (FP operations uninterpreted on both sides) */
    IN(f32, a); IN(f32, b); IN(f32, t);
    f32 d = FSUB(a, b), e = FSUB(b, a);
    f32 ad = d > 0.0f ? d : -d;                       /* Imath abs(): (x > 0) ? x : -x */
    i32 sg = (d > 0.0f) ? 1 : ((d < 0.0f) ? -1 : 0);
    CHECK((i32)w_cmptf(a, b, t) == (ad <= t ? 0 : sg), "cmpt(a,b,t) == (|a-b| <= t) ? 0 : sign(a-b)");
    CHECK(((i32)w_equalf(a, b, t) != 0) == (ad <= t), "equal(a,b,t) == |a-b| <= t");
    f32 dd = (a > b) ? d : e;
    CHECK(((i32)w_eq_abs_f(a, b, t) != 0) == (dd <= t), "equalWithAbsError == |x1-x2| <= e");
    CHECK(((i32)w_eq_rel_f(a, b, t) != 0) == (dd <= FMUL(t, (a > 0.0f) ? a : -a)), "equalWithRelError == |x1-x2| <= e*|x1|");
    END;
}
HARNESS(h_finite)
{
    IN(u32, fb); IN(u64, db);
    CHECK(((i32)w_finitef(bits_f32(fb)) != 0) == (((fb >> 23) & 0xff) != 0xff), "finitef <=> exponent field not all ones, all 2^32 patterns");
    CHECK(((i32)w_finited(bits_f64(db)) != 0) == (((db >> 52) & 0x7ff) != 0x7ff), "finited <=> exponent field not all ones, all 2^64 patterns");
    END;
}
HARNESS(h_succ_pred)
{
    IN(u32, fb); IN(u64, db);
    f32 f = bits_f32(fb); f64 d = bits_f64(db);
    int ff = ((fb >> 23) & 0xff) != 0xff, fd = ((db >> 52) & 0x7ff) != 0x7ff;
    if (!ff) CHECK(f32_bits(w_succf(f)) == fb && f32_bits(w_predf(f)) == fb, "succf/predf return inf/NaN unchanged (same bits)");
    else CHECK(f32_bits(w_succf(f)) == f32_bits(NEXTF(f, INFINITY)) && f32_bits(w_predf(f)) == f32_bits(NEXTF(f, -INFINITY)), "succf/predf == nextafter toward +inf / -inf");
    if (!fd) CHECK(f64_bits(w_succd(d)) == db && f64_bits(w_predd(d)) == db, "succd/predd return inf/NaN unchanged (same bits)");
    else CHECK(f64_bits(w_succd(d)) == f64_bits(NEXTD(d, (f64)INFINITY)) && f64_bits(w_predd(d)) == f64_bits(NEXTD(d, -(f64)INFINITY)), "succd/predd == nextafter toward +inf / -inf");
    END;
}
HARNESS(h_lerp_ulerp)
{
    IN(f32, a); IN(f32, b); IN(f32, t); IN(f64, da); IN(f64, db_); IN(f64, dt);
    f32 r = w_lerpf(a, b, t);
    CHECK(same_f32(r, FADD(FMUL(a, FSUB(1.0f, t)), FMUL(b, t))), "lerp == a*(1-t) + b*t");
    f32 u = w_ulerpf(a, b, t);
    CHECK(same_f32(u, a > b ? FSUB(a, FMUL(FSUB(a, b), t)) : FADD(a, FMUL(FSUB(b, a), t))), "ulerp == a>b ? a-(a-b)t : a+(b-a)t");
    f64 rd = w_lerpd(da, db_, dt);
    CHECK(same_f64(rd, DADD(DMUL(da, DSUB(1.0, dt)), DMUL(db_, dt))), "lerp<double>");
    f64 ud = w_ulerpd(da, db_, dt);
    CHECK(same_f64(ud, da > db_ ? DSUB(da, DMUL(DSUB(da, db_), dt)) : DADD(da, DMUL(DSUB(db_, da), dt))), "ulerp<double>");
    END;
}
HARNESS(h_packed_roundtrip3)
{
    IN(u32, p);
    struct V3F c;
    w_packed2rgb3f(p, &c);
    u32 q = w_rgb2packed3f(&c);
    CHECK((q & 0xffffffu) == (p & 0xffffffu), "rgb2packed(packed2rgb(p)) preserves the three 8-bit channels (Vec3<float>)");
    CHECK((q >> 24) == 0xffu, "Vec3 form sets alpha to 0xFF");
    END;
}
HARNESS(h_packed_roundtrip4)
{
    IN(u32, p);
    struct C4F c;
    w_packed2rgb4f(p, &c);
    CHECK(w_rgb2packed4f(&c) == p, "rgb2packed(packed2rgb(p)) == p for all 2^32 p (Color4<float>)");
    END;
}
HARNESS(h_hsv_vec3_vs_color4)
{   /* the Vec3 and Color4 copies of the double-precision converters agree; alpha passes through */
    INA(f64, in, 4);
    struct V3D a3, r3, h3; struct C4D a4, r4, h4;
    memcpy(&a3, in, 24); memcpy(&a4, in, 32);
    w_hsv2rgb3d(&a3, &r3); w_hsv2rgb4d(&a4, &r4);
    w_rgb2hsv3d(&a3, &h3); w_rgb2hsv4d(&a4, &h4);
    f64 o3[3], o4[4], p3[3], p4[4];
    memcpy(o3, &r3, 24); memcpy(o4, &r4, 32); memcpy(p3, &h3, 24); memcpy(p4, &h4, 32);
    for (int i = 0; i < 3; i++)
    {
        CHECK(same_f64(o3[i], o4[i]), "hsv2rgb: Vec3 and Color4 overloads agree");
        CHECK(same_f64(p3[i], p4[i]), "rgb2hsv: Vec3 and Color4 overloads agree");
    }
    CHECK(f64_bits(o4[3]) == f64_bits(in[3]) && f64_bits(p4[3]) == f64_bits(in[3]), "alpha passes through unchanged");
    END;
}
HARNESS(h_cubic_delegates)
{   /* leading coefficient 0: solveCubic == solveQuadratic == solveLinear, same count and same root bits */
    IN(f64, b); IN(f64, c); IN(f64, d);
    f64 x3[3] = { 7, 8, 9 }, x2[2] = { 7, 8 }, x1[1] = { 7 }, y2[2] = { 7, 8 };
    i32 n3 = (i32)w_solve_cubic_d(0.0, b, c, d, x3), n2 = (i32)w_solve_quadratic_d(b, c, d, x2);
    CHECK(n3 == n2, "solveCubic(0,b,c,d) root count == solveQuadratic(b,c,d)");
    CHECK(same_f64(x3[0], x2[0]) && same_f64(x3[1], x2[1]), "solveCubic(0,b,c,d) roots == solveQuadratic(b,c,d)");
    i32 m2 = (i32)w_solve_quadratic_d(0.0, c, d, y2), m1 = (i32)w_solve_linear_d(c, d, x1);
    CHECK(m2 == m1 && same_f64(y2[0], x1[0]), "solveQuadratic(0,b,c) == solveLinear(b,c)");
    END;
}
