#include "common.h"
#define H_OP1(NAME, RM_, AM_) HARNESS(h_neg_##NAME) { RANGE; ARR(r, L, RM_, 1); ARR(a, L, AM_, 1); \
    __verif_exc = 0; w_neg_##NAME(&r, &a, s, e); CHECK(__verif_exc == 0, "no exception"); \
    RESULT(r, RM_, (u32)(-(i32)a_init[SLOT(a, AM_, i)])); UNCHANGED(a); END; }
H_OP1(DD, 0, 0) H_OP1(DM, 0, 1) H_OP1(MD, 1, 0) H_OP1(MM, 1, 1)

#define H_OP2(NAME, RM_, AM_, BM_) HARNESS(h_add_##NAME) { RANGE; ARR(r, L, RM_, 1); ARR(a, L, AM_, 1); ARR(b, L, BM_, 0); \
    __verif_exc = 0; w_add_##NAME(&r, &a, &b, s, e); CHECK(__verif_exc == 0, "no exception"); \
    RESULT(r, RM_, a_init[SLOT(a, AM_, i)] + b_init[SLOT(b, BM_, i)]); UNCHANGED(a); UNCHANGED(b); END; }
H_OP2(DDD, 0, 0, 0) H_OP2(DDM, 0, 0, 1) H_OP2(DMD, 0, 1, 0) H_OP2(DMM, 0, 1, 1) H_OP2(MDD, 1, 0, 0) H_OP2(MMM, 1, 1, 1)
#define H_OP2S(NAME, AM_) HARNESS(h_add_##NAME) { RANGE; ARR(r, L, 0, 1); ARR(a, L, AM_, 1); IN(u32, bs); u32 b0 = bs; \
    __verif_exc = 0; w_add_##NAME(&r, &a, &bs, s, e); CHECK(__verif_exc == 0, "no exception"); \
    RESULT(r, 0, a_init[SLOT(a, AM_, i)] + b0); UNCHANGED(a); CHECK(bs == b0, "scalar argument untouched"); END; }
H_OP2S(DDS, 0) H_OP2S(DMS, 1)

static u32 clamp3(u32 a, u32 l, u32 h) { return (i32)a < (i32)l ? l : ((i32)a > (i32)h ? h : a); }
#define H_OP3(NAME, AM_, BM_, CM_) HARNESS(h_clamp_##NAME) { RANGE; ARR(r, L, 0, 1); ARR(a, L, AM_, 1); ARR(b, L, BM_, 1); ARR(c, L, CM_, 0); \
    __verif_exc = 0; w_clamp_##NAME(&r, &a, &b, &c, s, e); CHECK(__verif_exc == 0, "no exception"); \
    RESULT(r, 0, clamp3(a_init[SLOT(a, AM_, i)], b_init[SLOT(b, BM_, i)], c_init[SLOT(c, CM_, i)])); UNCHANGED(a); UNCHANGED(b); UNCHANGED(c); END; }
H_OP3(DDDD, 0, 0, 0) H_OP3(DMDM, 1, 0, 1)

#define H_VOP1(NAME, AM_, BM_) HARNESS(h_iadd_##NAME) { RANGE; ARR(a, L, AM_, 1); ARR(b, L, BM_, 0); \
    __verif_exc = 0; w_iadd_##NAME(&a, &b, s, e); CHECK(__verif_exc == 0, "no exception"); \
    RESULT(a, AM_, a_init[SLOT(a, AM_, i)] + b_init[SLOT(b, BM_, i)]); UNCHANGED(b); END; }
H_VOP1(DD, 0, 0) H_VOP1(DM, 0, 1) H_VOP1(MD, 1, 0) H_VOP1(MM, 1, 1)
#define H_VOP1S(NAME, AM_) HARNESS(h_iadd_##NAME) { RANGE; ARR(a, L, AM_, 1); IN(u32, bs); u32 b0 = bs; \
    __verif_exc = 0; w_iadd_##NAME(&a, &bs, s, e); CHECK(__verif_exc == 0, "no exception"); \
    RESULT(a, AM_, a_init[SLOT(a, AM_, i)] + b0); CHECK(bs == b0, "scalar argument untouched"); END; }
H_VOP1S(DS, 0) H_VOP1S(MS, 1)
HARNESS(h_iadd_masked_raw)
{   /* a is a masked reference of length L into an array of length a_ul; b has the UNMASKED length and is read at a's raw index */
    RANGE; ARR(a, L, 1, 1); IN(u64, bl); ASSUME(bl == a_ul); ARR(b, bl, 0, 0);
    __verif_exc = 0; w_iadd_masked_raw(&a, &b, s, e); CHECK(__verif_exc == 0, "no exception");
    RESULT(a, 1, a_init[SLOT(a, 1, i)] + b_init[a_idx[i] * b_stride]); UNCHANGED(b); END;
}
#define H_INEG(NAME, AM_) HARNESS(h_ineg_##NAME) { RANGE; ARR(a, L, AM_, 1); __verif_exc = 0; w_ineg_##NAME(&a, s, e); CHECK(__verif_exc == 0, "no exception"); \
    RESULT(a, AM_, (u32)(-(i32)a_init[SLOT(a, AM_, i)])); END; }
H_INEG(D, 0) H_INEG(M, 1)
HARNESS(h_iaddmul_DDM)
{
    RANGE; ARR(a, L, 0, 1); ARR(b, L, 0, 1); ARR(c, L, 1, 0);
    __verif_exc = 0; w_iaddmul_DDM(&a, &b, &c, s, e); CHECK(__verif_exc == 0, "no exception");
    RESULT(a, 0, a_init[SLOT(a, 0, i)] + b_init[SLOT(b, 0, i)] - c_init[SLOT(c, 1, i)]); UNCHANGED(b); UNCHANGED(c); END;
}
HARNESS(h_readonly_result)
{   /* a task can never be built on a read-only result / in-place operand: the writable accessor refuses, nothing is written */
    RANGE; IN(u8, m); ARR(r, L, (m & 1), 0); ARR(b, L, 0, 0);
    __verif_exc = 0; if (m & 1) w_iadd_MD(&r, &b, s, e); else w_iadd_DD(&r, &b, s, e);
    CHECK(__verif_exc != 0, "building the task on a read-only array raises");
    UNCHANGED(r); END;
}
HARNESS(h_wrong_accessor_kind)
{   /* the accessor kind must match the array: a direct accessor on a masked reference (and vice versa) is refused */
    RANGE; ARR(r, L, 0, 1); ARR(a, L, 1, 1); ARR(b, L, 0, 0);
    __verif_exc = 0; w_add_DDD(&r, &a, &b, s, e);
    CHECK(__verif_exc != 0, "ReadOnlyDirectAccess on a masked reference raises"); UNCHANGED(r);
    END;
}
HARNESS(h_measure_arguments)
{   /* mismatched lengths raise before any element is touched */
    IN(u64, la); IN(u64, lb); IN(u64, lc); IN(u32, sc); ASSUME(la <= N && lb <= N && lc <= N);
    ARR(a, la, 0, 1); ARR(b, lb, 0, 1); ARR(c, lc, 0, 0);
    __verif_exc = 0; u64 r2 = w_measure2(&a, &b);
    CHECK(la == lb ? (__verif_exc == 0 && r2 == la) : (__verif_exc != 0), "measure_arguments(a,b): equal lengths or std::invalid_argument");
    __verif_exc = 0; u64 r3 = w_measure3(&a, &b, &c);
    CHECK((la == lb && lb == lc) ? (__verif_exc == 0 && r3 == la) : (__verif_exc != 0), "measure_arguments(a,b,c): all equal or raises");
    __verif_exc = 0; u64 rs = w_measure2s(&a, sc);
    CHECK(__verif_exc == 0 && rs == la, "a scalar argument adopts the array length");
    UNCHANGED(a); UNCHANGED(b); UNCHANGED(c); END;
}
HARNESS(h_box_intersects_task)
{   /* hand-written task of PyImathBox.cpp: results[p] = box.intersects(points[p]) */
    RANGE; IN(u64, pstride); INA(i32, box, 6); INA(i32, pts, 6 * N); ARR(res, L, 0, 1);
    ASSUME(pstride >= 1 && pstride <= 2);
    static i32 pd[6 * N + 6]; IN(i32, guardv);
    for (u64 j = 0; j < 6 * N + 6; j++) pd[j] = (j < 3 * L * pstride) ? pts[j] : guardv;
    struct VA_T P; P.f0 = (void*)pd; P.f1 = L; P.f2 = pstride; P.f3 = 0; P.f4.f0 = 0; P.f5.f0 = 0; P.f5.f1.f0 = 0; P.f6 = 0;
    i32 bx[6]; for (int i = 0; i < 6; i++) bx[i] = box[i];
    __verif_exc = 0; w_box_intersects_task((void*)bx, &P, &res, s, e); CHECK(__verif_exc == 0, "no exception");
    { u32 exp_[4 * N]; for (u64 j_ = 0; j_ < 4 * N; j_++) exp_[j_] = res_init[j_];
      for (u64 i = 0; i < L; i++) if (i >= s && i < e) { int in = 1; for (int k = 0; k < 3; k++) { i32 c = pts[3 * i * pstride + k]; if (c < box[k] || c > box[3 + k]) in = 0; } exp_[i * res_stride] = in; }
      for (u64 j_ = 0; j_ < 4 * N; j_++) CHECK(res_data[j_] == exp_[j_], "results[p] == box.intersects(points[p]) for start <= p < end, untouched elsewhere"); }
    for (u64 j = 0; j < 6 * N + 6; j++) CHECK(pd[j] == ((j < 3 * L * pstride) ? pts[j] : guardv), "points (and the guard zone behind them) are not modified");
    for (int i = 0; i < 6; i++) CHECK(bx[i] == box[i], "box is not modified");
    END;
}
HARNESS(h_box_extend_task)
{   /* hand-written task of PyImathBox.cpp: ExtendByTask::execute(start,end,tid) ACCUMULATES points[start..end) into the worker's box
       boxes[tid], whatever that box already holds (a worker id may be handed several sub-ranges), and touches no other worker's box */
    RANGE; IN(u64, pstride); INA(i32, pts, 6 * N); ASSUME(pstride >= 1 && pstride <= 2);
    static i32 pd[6 * N + 6]; IN(i32, guardv);
    for (u64 j = 0; j < 6 * N + 6; j++) pd[j] = (j < 3 * L * pstride) ? pts[j] : guardv;
    struct VA_T P; P.f0 = (void*)pd; P.f1 = L; P.f2 = pstride; P.f3 = 0; P.f4.f0 = 0; P.f5.f0 = 0; P.f5.f1.f0 = 0; P.f6 = 0;
    INA(i32, b0, 18); static i32 bx[18]; for (int i = 0; i < 18; i++) bx[i] = b0[i];      /* three per-worker boxes, arbitrary contents */
    IN(u32, tid); ASSUME(tid < 3);
    struct T_class_std__vector V; V.f0.f0.f0.f0 = (void*)bx; V.f0.f0.f0.f1 = (void*)(bx + 18); V.f0.f0.f0.f2 = (void*)(bx + 18);
    __verif_exc = 0; w_box_extend_task(&V, &P, s, e, tid); CHECK(__verif_exc == 0, "no exception");
    i32 want[18]; for (int i = 0; i < 18; i++) want[i] = b0[i];
    for (u64 i = 0; i < L; i++) if (i >= s && i < e)
        for (int k = 0; k < 3; k++) { i32 c = pts[3 * i * pstride + k]; if (c < want[6 * tid + k]) want[6 * tid + k] = c; if (c > want[6 * tid + 3 + k]) want[6 * tid + 3 + k] = c; }
    for (int i = 0; i < 18; i++) CHECK(bx[i] == want[i], "boxes[tid] == its previous value extended by points[start..end); the other workers' boxes untouched");
    for (u64 j = 0; j < 6 * N + 6; j++) CHECK(pd[j] == ((j < 3 * L * pstride) ? pts[j] : guardv), "points (and the guard zone behind them) are not modified");
    END;
}
