/* C20: every Task::execute(start,end) writes exactly result[i] = op(args[i]) for start <= i < end, leaves every other
 * element of the result and every argument untouched, for EVERY sub-range [start,end) of [0,len) - hence the outcome
 * is independent of how a WorkerPool partitions the range, of the order of the sub-ranges and of their running
 * concurrently (write frames of disjoint sub-ranges are disjoint; arguments are only read).
 * Arrays are arbitrary valid FixedArray<int> states (see C19): length L <= N, stride 1..2, direct or masked.
 * Backing stores are static arrays of 4N elements: the first cap = length*stride (resp. unmaskedLength*stride) belong
 * to the array, the rest is a guard zone with ARBITRARY contents: a write outside the array changes the guard (checked),
 * a read outside the array makes the result depend on an arbitrary value (the exact-result check then fails), and an
 * access beyond the guard is a CBMC bounds violation. */
#include "verif.h"
#include <stdlib.h>
#include GEN_H
#ifndef N
#define N 3
#endif
typedef struct T_class_PyImath__FixedArray FA;
uint8_t* STUB___cxa_begin_catch(uint8_t* p) { return p; }
void STUB__ZSt9terminatev(void) { ASSUME(0); }
static struct T_class_boost__detail__sp_counted_base cnt;

/* declare one array P of python-level length LEN with mask flag MSK (compile-time 0/1) and writable flag WR */
#define ARR(P, LEN, MSK, WR)                                                                                  \
    IN(u64, P##_stride); IN(u64, P##_ul); INA(u64, P##_ix, N); INA(u32, P##_init, 4 * N);                     \
    static u64 P##_idx[N]; FA P; static u32 P##_data[4 * N]; u64 P##_cap;                                     \
    ASSUME(P##_stride >= 1 && P##_stride <= 2);                                                               \
    if (MSK) { ASSUME(P##_ul <= N && (LEN) <= P##_ul); P##_cap = P##_ul * P##_stride; } else { P##_cap = (LEN) * P##_stride; } \
    for (u64 j_ = 0; j_ < 4 * N; j_++) P##_data[j_] = P##_init[j_];                                           \
    for (int i_ = 0; i_ < N; i_++) { P##_idx[i_] = P##_ix[i_]; if (MSK) { ASSUME(P##_ix[i_] < P##_ul); if (i_ + 1 < N && (u64)(i_ + 1) < (LEN)) ASSUME(P##_ix[i_] < P##_ix[i_ + 1]); } } \
    P.f0 = P##_data; P.f1 = (LEN); P.f2 = P##_stride; P.f3 = (WR); P.f4.f0 = 0; P.f6 = (MSK) ? P##_ul : 0;   \
    if (MSK) { P.f5.f0 = P##_idx; P.f5.f1.f0 = &cnt; cnt.f1 = 1000; cnt.f2 = 1000; } else { P.f5.f0 = 0; P.f5.f1.f0 = 0; }
#define SLOT(P, MSK, k) (((MSK) ? P##_idx[k] : (k)) * P##_stride)
#define UNCHANGED(P) for (u64 j_ = 0; j_ < 4 * N; j_++) CHECK(P##_data[j_] == P##_init[j_], #P ": argument array is not modified")
#define RANGE IN(u64, L); IN(u64, s); IN(u64, e); ASSUME(L <= N && s <= e && e <= L)
/* result array: element i in [s,e) == WANT, every other slot of its backing store unchanged */
#define RESULT(P, MSK, WANT)                                                                                  \
    { u32 exp_[4 * N]; for (u64 j_ = 0; j_ < 4 * N; j_++) exp_[j_] = P##_init[j_];                            \
      for (u64 i = 0; i < L; i++) if (i >= s && i < e) exp_[SLOT(P, MSK, i)] = (WANT);                        \
      for (u64 j_ = 0; j_ < 4 * N; j_++) CHECK(P##_data[j_] == exp_[j_], #P ": exactly the elements start <= i < end are written, each with op(args[i]); guard zone intact"); }

