/* C20 (continued): hand-written floating-point tasks (PyImathQuat.cpp).  Same statement as tasks.c - one execute(start,end) call
 * writes exactly result[i] = op(args[i]) for start <= i < end and nothing else - with op being the scalar Imath operation,
 * evaluated by a separate wrapper on element copies.  FP + - * / (and sqrt) are uninterpreted on both sides, so "the same value"
 * means "the same operation applied to the same elements".  Arrays: direct or masked, stride 1..2, backing store followed by a
 * guard zone of arbitrary contents (a stray write changes it, a stray read makes the result arbitrary). */
#include "verif.h"
#include <stdlib.h>
#include GEN_H
#ifndef N
#define N 2
#endif
#ifndef RSTRIDE
#define RSTRIDE 1
#endif
#ifndef ASTRIDE
#define ASTRIDE 1
#endif
uint8_t* STUB___cxa_begin_catch(uint8_t* p) { return p; }
void STUB__ZSt9terminatev(void) { ASSUME(0); }
static struct T_class_boost__detail__sp_counted_base cnt;
#define CAPE (2 * N + 1)              /* elements: length*stride <= 2N plus one guard element */
#define CAP(NC) (CAPE * (NC))
/* array P of struct type TY with elements of struct type ELT (NC floats each), python-level length LEN, mask flag MSK, writable WR.
   The backing store has the element's own type (the task indexes it with a symbolic i: a type-punned float store would make every
   access a byte extraction at a symbolic offset); the harness reads and writes components at concrete positions only. */
#define COMP(P, k, c) (((f32*)&P##_data[k])[c])
#define FARR(TY, ELT, P, NC, LEN, MSK, WR)                                                                    \
    u64 P##_stride = (((#P)[0] == 'r') ? RSTRIDE : ASTRIDE); IN(u64, P##_ul); INA(u64, P##_ix, N); f32 P##_init[CAP(NC)]; for (int k_ = 0; k_ < CAPE; k_++) for (int c_ = 0; c_ < (NC); c_++) { IN(f32, t_); P##_init[k_ * (NC) + c_] = t_; } \
    static u64 P##_idx[N]; struct TY P; static struct ELT P##_data[CAPE];                                     \
    if (MSK) { ASSUME(P##_ul <= N && (LEN) <= P##_ul); }                                                      \
    for (int k_ = 0; k_ < CAPE; k_++) for (int c_ = 0; c_ < (NC); c_++) COMP(P, k_, c_) = P##_init[k_ * (NC) + c_]; \
    for (int i_ = 0; i_ < N; i_++) { P##_idx[i_] = P##_ix[i_]; if (MSK) { ASSUME(P##_ix[i_] < P##_ul); if (i_ + 1 < N && (u64)(i_ + 1) < (LEN)) ASSUME(P##_ix[i_] < P##_ix[i_ + 1]); } } \
    P.f0 = P##_data; P.f1 = (LEN); P.f2 = P##_stride; P.f3 = (WR); P.f4.f0 = 0; P.f6 = (MSK) ? P##_ul : 0;    \
    if (MSK) { P.f5.f0 = P##_idx; P.f5.f1.f0 = &cnt; cnt.f1 = 1000; cnt.f2 = 1000; } else { P.f5.f0 = 0; P.f5.f1.f0 = 0; }
#define ELEM(P, NC, MSK, k) (&P##_init[(((MSK) ? P##_idx[k] : (k)) * P##_stride) * (NC)])
#define FUNCHANGED(P, NC) for (int k_ = 0; k_ < CAPE; k_++) for (int c_ = 0; c_ < (NC); c_++) CHECK(same_f32(COMP(P, k_, c_), P##_init[k_ * (NC) + c_]), #P ": argument array is not modified")
#define RANGE IN(u64, L); IN(u64, s); IN(u64, e); ASSUME(L <= N && s <= e && e <= L)
#define FRESULT(P, NC, MSK, REFCALL)                                                                          \
    { f32 exp_[CAP(NC)]; for (int k_ = 0; k_ < CAPE; k_++) for (int c_ = 0; c_ < (NC); c_++) exp_[k_ * (NC) + c_] = P##_init[k_ * (NC) + c_]; \
      for (u64 i = 0; i < L; i++) if (i >= s && i < e) { f32 o_[NC]; REFCALL; for (int c_ = 0; c_ < (NC); c_++) exp_[(((MSK) ? P##_idx[i] : i) * P##_stride) * (NC) + c_] = o_[c_]; } \
      for (int k_ = 0; k_ < CAPE; k_++) for (int c_ = 0; c_ < (NC); c_++) CHECK(same_f32(COMP(P, k_, c_), exp_[k_ * (NC) + c_]), #P ": exactly the elements start <= i < end are written, each with op(args[i]); guard zone intact"); }

#define QTASK2(NAME, AM_, BM_, RM_)                                                                           \
HARNESS(h_qtask_mul_##NAME) { RANGE; FARR(QA_T, QEL_T, a, 4, L, AM_, 0); FARR(QA_T, QEL_T, b, 4, L, BM_, 0); FARR(QA_T, QEL_T, r, 4, L, RM_, 1); \
    __verif_exc = 0; w_qtask_mul(&a, &b, &r, s, e); CHECK(__verif_exc == 0, "no exception");                  \
    FRESULT(r, 4, RM_, w_qref_mul((void*)ELEM(a, 4, AM_, i), (void*)ELEM(b, 4, BM_, i), (void*)o_)); FUNCHANGED(a, 4); FUNCHANGED(b, 4); END; }
QTASK2(DDD, 0, 0, 0) QTASK2(MDM, 1, 0, 1)
HARNESS(h_qtask_inverse) { RANGE; FARR(QA_T, QEL_T, a, 4, L, 0, 0); FARR(QA_T, QEL_T, r, 4, L, 0, 1);
    __verif_exc = 0; w_qtask_inverse(&a, &r, s, e); CHECK(__verif_exc == 0, "no exception");
    FRESULT(r, 4, 0, w_qref_inverse((void*)ELEM(a, 4, 0, i), (void*)o_)); FUNCHANGED(a, 4); END; }
#define QROT(NAME, FN, REF, QM_, VM_)                                                                         \
HARNESS(h_qtask_##NAME) { RANGE; FARR(QA_T, QEL_T, q, 4, L, QM_, 0); FARR(VA3_T, VEL_T, v, 3, L, VM_, 0); FARR(VA3_T, VEL_T, r, 3, L, 0, 1); \
    __verif_exc = 0; FN(&q, &v, &r, s, e); CHECK(__verif_exc == 0, "no exception");                           \
    FRESULT(r, 3, 0, REF((void*)ELEM(q, 4, QM_, i), (void*)ELEM(v, 3, VM_, i), (void*)o_)); FUNCHANGED(q, 4); FUNCHANGED(v, 3); END; }
QROT(rotate_DD, w_qtask_rotate, w_qref_rotate, 0, 0) QROT(rotate_MD, w_qtask_rotate, w_qref_rotate, 1, 0)
QROT(rmulvec3array_DD, w_qtask_rmulvec3array, w_qref_rmulvec3, 0, 0) QROT(rmulvec3array_DM, w_qtask_rmulvec3array, w_qref_rmulvec3, 0, 1)
