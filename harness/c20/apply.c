#include "common.h"
/* the binding-level dispatcher for in-place operators: a op= b through VectorizedVoidMaskableMemberFunction1::apply, which picks the
   task class and the accessor kinds from the two arrays.  a[i] += b[i] when the lengths agree; when a is a masked reference and b has
   a's UNMASKED length, a[i] += b[raw index of a's i-th element]; any other length combination raises and modifies nothing. */
void STUB__ZN7PyImath13PyReleaseLockC1Ev(struct T_class_PyImath__PyReleaseLock* p) {}
void STUB__ZN7PyImath13PyReleaseLockD1Ev(struct T_class_PyImath__PyReleaseLock* p) {}
#ifndef AM
#define AM 0
#endif
#ifndef BM
#define BM 0
#endif
HARNESS(h_apply_iadd)
{
    IN(u64, la); IN(u64, lb); ASSUME(la <= N && lb <= N);
    const int am = AM, bm = BM;      /* array kinds pinned per obligation */
    ARR(a, la, am, 1); ARR(b, lb, bm, 0);
    __verif_exc = 0; w_apply_iadd(&a, &b);
    u64 aul = am ? a_ul : la;
    u32 want[4 * N]; for (u64 j = 0; j < 4 * N; j++) want[j] = a_init[j];
    if (am && lb == aul) {
        CHECK(__verif_exc == 0, "masked a, b of a's unmasked length: accepted");
        for (u64 i = 0; i < N; i++) if (i < la) { u64 ri = a_idx[i]; want[ri * a_stride] = a_init[ri * a_stride] + b_init[(bm ? b_idx[ri] : ri) * b_stride]; } }
    else if (la == lb) {
        CHECK(__verif_exc == 0, "equal lengths: accepted");
        for (u64 i = 0; i < N; i++) if (i < la) want[SLOT(a, am, i)] = a_init[SLOT(a, am, i)] + b_init[SLOT(b, bm, i)]; }
    else CHECK(__verif_exc != 0, "any other combination of lengths raises");
    for (u64 j = 0; j < 4 * N; j++) CHECK(a_data[j] == want[j], "a op= b: every selected element updated with the matching element of b, nothing else written");
    UNCHANGED(b); END;
}
