/* C11 engine B: order bookkeeping and the angle-slot permutations are pure data movement: all bit patterns. */
#include "verif.h"
#include GEN_H
static int is_order(u32 o)
{   /* the 24 enumerators of Euler<T>::Order */
    if (o & ~0x3111u) return 0;
    u32 axis = o & 0xf000u, rest = o & 0x0fffu;
    return (axis == 0x0000u || axis == 0x1000u || axis == 0x2000u) && (rest == 0x000u || rest == 0x001u || rest == 0x010u || rest == 0x011u || rest == 0x100u || rest == 0x101u || rest == 0x110u || rest == 0x111u);
}
HARNESS(h_order)
{
    IN(u32, o); IN(u32, o0);
    ASSUME(is_order(o) && is_order(o0));
    CHECK((u32)w_euler_orderf((i32)o) == o && (u32)w_euler_orderd((i32)o) == o, "Euler(o).order() == o for each of the 24 orders");
    CHECK((u32)w_euler_setorderf((i32)o0, (i32)o) == o, "setOrder(o) after any previous order gives order() == o");
    END;
}
HARNESS(h_xyz_permutation)
{
    IN(u32, o); INA(f32, v, 3);
    ASSUME(is_order(o) && !(o & 0x0010u));               /* non-repeated orders */
    f32 r[3], ijk[3], ijk2[3], back[3];
    w_euler_xyzvec_roundtripf((void*)v, (i32)o, (void*)r);
    w_euler_set_xyzvecf((void*)v, (i32)o, (void*)ijk);
    w_euler_xyzlayout_ctorf((void*)v, (i32)o, (void*)ijk2);
    w_euler_to_xyzvecf((void*)ijk, (i32)o, (void*)back);
    for (int i = 0; i < 3; i++)
    {
        CHECK(f32_bits(r[i]) == f32_bits(v[i]), "toXYZVector(setXYZVector(v)) == v, bit for bit");
        CHECK(f32_bits(ijk[i]) == f32_bits(ijk2[i]), "XYZ-layout constructor == setXYZVector");
        CHECK(f32_bits(back[i]) == f32_bits(v[i]), "toXYZVector inverts setXYZVector on the stored slots");
    }
    /* a permutation: the stored slots are exactly the three inputs */
    int used[3] = { 0, 0, 0 };
    for (int i = 0; i < 3; i++) for (int j = 0; j < 3; j++) if (!used[j] && f32_bits(ijk[i]) == f32_bits(v[j])) { used[j] = 1; break; }
    CHECK(used[0] && used[1] && used[2], "setXYZVector permutes the three angle slots");
    END;
}
