/* Engine A: src/Imath/half.h compiled AS C (it is valid C; half_c_main.c does the same) and checked by
 * CBMC's C front end.  Build variants by -D: IMATH_HALF_NO_LOOKUP_TABLE (bit-shift path) or table path. */
#include "verif.h"
#include "half.h"

#if defined(TABLE_SYMBOLIC)
/* wiring obligation: the table path must return exactly entry h of WHATEVER table is installed
   (an extern array without initialiser is an arbitrary array for CBMC) */
#ifdef __CPROVER__
extern const imath_half_uif_t imath_half_to_float_table_data[1 << 16];
#else
imath_half_uif_t imath_half_to_float_table_data[1 << 16];
#endif
const imath_half_uif_t* imath_half_to_float_table = imath_half_to_float_table_data;
#elif !defined(IMATH_HALF_NO_LOOKUP_TABLE)
/* exactly what half.cpp does with the checked-in generated table */
const imath_half_uif_t imath_half_to_float_table_data[1 << 16] =
#include "toFloat.h"
const imath_half_uif_t* imath_half_to_float_table = imath_half_to_float_table_data;
#endif

#include "half_ref.h"

HARNESS(h_f2h_ref)
{   /* C01-O1(i),O3: every one of the 2^32 float patterns */
    IN(u32, fb);
    u16 r = imath_float_to_half(bits_f32(fb));
    CHECK(r == ref_f2h(fb), "f2h == value-based RNE reference (incl. NaN payload rule)");
    END;
}

#ifdef __CPROVER__
typedef __CPROVER_floatbv[16][10] cprover_f16;
#endif
HARNESS(h_f2h_native)
{   /* C01-O1(ii): second, independent oracle: CBMC's own IEEE binary16 type, non-NaN inputs */
    IN(u32, fb);
    f32 f = bits_f32(fb);
    ASSUME(f == f);
    u16 r = imath_float_to_half(f);
#ifdef __CPROVER__
    cprover_f16 h = (cprover_f16)f;
    u16 hb; memcpy(&hb, &h, 2);
    CHECK(r == hb, "f2h == (IEEE binary16)f under RNE");
#else
    CHECK(r == ref_f2h(fb), "f2h == (IEEE binary16)f under RNE");
#endif
    END;
}

HARNESS(h_f2h_corollaries)
{   /* C01-O2: thresholds stated in the property, on the magnitude */
    IN(u32, fb);
    f32 f = bits_f32(fb);
    ASSUME(f == f);
    f32 a = fabsf(f);
    u16 r = imath_float_to_half(f);
    CHECK((r & 0x8000u) == ((fb >> 16) & 0x8000u), "sign kept");
    if (a >= 65520.0f) CHECK((r & 0x7fffu) == 0x7c00u, ">=65520 -> inf");
    if (a < 65520.0f) CHECK((r & 0x7fffu) < 0x7c00u, "<65520 -> finite");
    if (a <= 0x1p-25f) CHECK((r & 0x7fffu) == 0, "<=2^-25 -> zero");
    if (a > 0x1p-25f) CHECK((r & 0x7fffu) != 0, ">2^-25 -> non-zero");
    if (a < 0x1p-14f && a > 0x1p-25f)
    {   /* correctly rounded subnormal: |a - k*2^-24| <= 2^-25, tie -> even k */
        u32 k = r & 0x7fffu;
        f32 d = a - (f32)k * 0x1p-24f;     /* exact: both multiples of 2^-149 within range */
        CHECK(fabsf(d) <= 0x1p-25f, "subnormal within half ulp");
        if (fabsf(d) == 0x1p-25f) CHECK((k & 1u) == 0, "subnormal tie -> even");
    }
    END;
}

HARNESS(h_h2f_ref)
{   /* C01-O4: all 2^16 half patterns */
    IN(u16, h);
    f32 f = imath_half_to_float(h);
    CHECK(f32_bits(f) == ref_h2f(h), "h2f == value denoted by the pattern (NaN: sign|0x7f800000|m<<13)");
    END;
}

HARNESS(h_h2f_native)
{
    IN(u16, h);
    ASSUME(!(((h >> 10) & 31u) == 31u && (h & 0x3ffu)));
    f32 f = imath_half_to_float(h);
#ifdef __CPROVER__
    cprover_f16 x; memcpy(&x, &h, 2);
    f32 g = (f32)x;
    CHECK(f32_bits(f) == f32_bits(g), "h2f == (float)(IEEE binary16) for non-NaN");
#else
    CHECK(f32_bits(f) == ref_h2f(h), "h2f == (float)(IEEE binary16) for non-NaN");
#endif
    END;
}

HARNESS(h_roundtrip)
{   /* C01-O5 */
    IN(u16, h);
    ASSUME(!(((h >> 10) & 31u) == 31u && (h & 0x3ffu)));
    CHECK(imath_float_to_half(imath_half_to_float(h)) == h, "h -> f -> h identity on non-NaN");
    END;
}

HARNESS(h_nan_roundtrip)
{   /* NaN: class, sign and payload survive h->f->h */
    IN(u16, h);
    ASSUME(((h >> 10) & 31u) == 31u && (h & 0x3ffu));
    f32 f = imath_half_to_float(h);
    CHECK(f != f, "NaN -> NaN");
    CHECK(imath_float_to_half(f) == h, "NaN payload round trip");
    END;
}

/* ---------- table build.  A symbolic index into the 65,536-entry constant costs 12-30 s per 1,024-entry slice
 * (one query: >200 s), so the claim is split: (a) per slice, entry == denoted value [also C02-O1: table ==
 * bit-shift, since h_h2f_ref proves bit-shift == ref_h2f]; (b) the table path of half.h returns entry h of
 * whatever table is installed (TABLE_SYMBOLIC). ---------- */
#if defined(TABLE_SYMBOLIC)
HARNESS(h_table_wiring)
{
    IN(u16, h);
#ifndef __CPROVER__
    IN(u32, entry); imath_half_to_float_table_data[h].i = entry;
#endif
    f32 f = imath_half_to_float(h);
    CHECK(f32_bits(f) == imath_half_to_float_table_data[h].i, "table path returns entry h");
    END;
}
#elif !defined(IMATH_HALF_NO_LOOKUP_TABLE)
static void table_slice(u16 h, unsigned k)
{
    ASSUME((unsigned)(h >> 10) == k);
    CHECK(imath_half_to_float_table_data[h].i == ref_h2f(h), "table entry == denoted value");
}
#define SL(k) HARNESS(h_table_slice_##k) { IN(u16, h); table_slice(h, k); END; }
SL(0) SL(1) SL(2) SL(3) SL(4) SL(5) SL(6) SL(7) SL(8) SL(9) SL(10) SL(11) SL(12) SL(13) SL(14) SL(15)
SL(16) SL(17) SL(18) SL(19) SL(20) SL(21) SL(22) SL(23) SL(24) SL(25) SL(26) SL(27) SL(28) SL(29) SL(30) SL(31)
SL(32) SL(33) SL(34) SL(35) SL(36) SL(37) SL(38) SL(39) SL(40) SL(41) SL(42) SL(43) SL(44) SL(45) SL(46) SL(47)
SL(48) SL(49) SL(50) SL(51) SL(52) SL(53) SL(54) SL(55) SL(56) SL(57) SL(58) SL(59) SL(60) SL(61) SL(62) SL(63)
HARNESS(h_table_all)
{   /* single-query form, thorough tier only */
    IN(u16, h);
    CHECK(imath_half_to_float_table_data[h].i == ref_h2f(h), "table entry == denoted value");
    END;
}
#endif
