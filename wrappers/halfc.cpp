// The two C conversion functions of half.h as seen by a C++ translation unit (C02-O3: language-mode miter).
#include "verif_wrap.h"
#include <half.h>
WRAP uint16_t w_f2h (float f) { return imath_float_to_half (f); }
WRAP float    w_h2f (uint16_t h) { return imath_half_to_float (h); }
