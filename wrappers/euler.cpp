// C11: Euler angles (float and double).
#include "verif_wrap.h"
#include <ImathEuler.h>
#include <ImathMatrix.h>
#include <ImathQuat.h>
using namespace IMATH_NAMESPACE;

#define INST(T, S)                                                                                                      \
    WRAP int w_euler_order##S (int o) { return Euler<T> ((typename Euler<T>::Order) o).order (); }                       \
    WRAP int w_euler_setorder##S (int o0, int o) { Euler<T> e ((typename Euler<T>::Order) o0); e.setOrder ((typename Euler<T>::Order) o); return e.order (); } \
    WRAP void w_euler_m33##S (T x, T y, T z, int o, Matrix33<T>* r) { *r = Euler<T> (x, y, z, (typename Euler<T>::Order) o).toMatrix33 (); } \
    WRAP void w_euler_m44##S (T x, T y, T z, int o, Matrix44<T>* r) { *r = Euler<T> (x, y, z, (typename Euler<T>::Order) o).toMatrix44 (); } \
    WRAP void w_euler_quat_m33##S (T x, T y, T z, int o, Matrix33<T>* r) { *r = Euler<T> (x, y, z, (typename Euler<T>::Order) o).toQuat ().toMatrix33 (); } \
    WRAP void w_euler_quat##S (T x, T y, T z, int o, Quat<T>* q) { *q = Euler<T> (x, y, z, (typename Euler<T>::Order) o).toQuat (); } \
    WRAP void w_euler_xyzvec_roundtrip##S (const Vec3<T>* v, int o, Vec3<T>* r) { Euler<T> e ((typename Euler<T>::Order) o); e.setXYZVector (*v); *r = e.toXYZVector (); } \
    WRAP void w_euler_set_xyzvec##S (const Vec3<T>* v, int o, Vec3<T>* ijk) { Euler<T> e ((typename Euler<T>::Order) o); e.setXYZVector (*v); *ijk = Vec3<T> (e.x, e.y, e.z); } \
    WRAP void w_euler_to_xyzvec##S (const Vec3<T>* ijk, int o, Vec3<T>* r) { Euler<T> e (ijk->x, ijk->y, ijk->z, (typename Euler<T>::Order) o); *r = e.toXYZVector (); } \
    WRAP void w_euler_xyzlayout_ctor##S (const Vec3<T>* v, int o, Vec3<T>* ijk) { Euler<T> e (v->x, v->y, v->z, (typename Euler<T>::Order) o, Euler<T>::XYZLayout); *ijk = Vec3<T> (e.x, e.y, e.z); } \
    WRAP void w_euler_extract_m33_roundtrip##S (T x, T y, T z, int o, Matrix33<T>* r) { Matrix33<T> m = Euler<T> (x, y, z, (typename Euler<T>::Order) o).toMatrix33 (); Euler<T> f ((typename Euler<T>::Order) o); f.extract (m); *r = f.toMatrix33 (); } \
    WRAP void w_euler_extract33_rt##S (const Matrix33<T>* m, int o, Matrix33<T>* r) { Euler<T> f ((typename Euler<T>::Order) o); f.extract (*m); *r = f.toMatrix33 (); } \
    WRAP void w_euler_extract44_rt##S (const Matrix33<T>* m, int o, Matrix33<T>* r) { Euler<T> f ((typename Euler<T>::Order) o); f.extract (Matrix44<T> (*m, Vec3<T> (0, 0, 0))); *r = f.toMatrix33 (); } \
    WRAP void w_euler_extract33_angles##S (const Matrix33<T>* m, int o, Vec3<T>* a) { Euler<T> f ((typename Euler<T>::Order) o); f.extract (*m); *a = Vec3<T> (f.x, f.y, f.z); } \
    WRAP void w_euler_extract44_angles##S (const Matrix33<T>* m, int o, Vec3<T>* a) { Euler<T> f ((typename Euler<T>::Order) o); f.extract (Matrix44<T> (*m, Vec3<T> (0, 0, 0))); *a = Vec3<T> (f.x, f.y, f.z); } \
    WRAP void w_m44_seteuler##S (T x, T y, T z, Matrix44<T>* r) { Matrix44<T> m; m.setEulerAngles (Vec3<T> (x, y, z)); *r = m; }

INST (float, f)
INST (double, d)
