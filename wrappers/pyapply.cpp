// C20: the binding-level dispatcher for in-place array operators (VectorizedVoidMaskableMemberFunction1::apply): it chooses the
// task class and accessor kinds from the argument arrays and runs the task through dispatchTask (whose body is included so the call
// can be resolved statically: for lengths <= 200 it is task.execute(0, len, 0)).
#include <Python.h>
#include "verif_wrap.h"
#include <PyImathFixedArray.h>
#include <PyImathAutovectorize.h>
#include <PyImathOperators.h>
#include <PyImathTask.cpp>
using namespace PyImath;
using namespace PyImath::detail;
typedef FixedArray<int> IA;
WRAP void w_apply_iadd (IA* a, const IA* b)
{ W_TRY VectorizedVoidMaskableMemberFunction1<op_iadd<int, int>, void (int&, const int&)>::apply (*a, *b); W_CATCH }
#ifdef VERIF_NATIVE
// native replay runs without an interpreter: leaving/re-entering Python (GIL release) is a no-op there, as it is in the model
namespace PyImath { PyReleaseLock::PyReleaseLock () {} PyReleaseLock::~PyReleaseLock () {} }
#endif
