// C06 / C07: matrix inversion in all spellings (float and double).
#include "verif_wrap.h"
#include <ImathMatrix.h>
using namespace IMATH_NAMESPACE;

#define INV(T, S, N, M)                                                                              \
    WRAP void w_inv##N##S (const M<T>* a, M<T>* r) { *r = a->inverse (); }                           \
    WRAP void w_invb##N##S (const M<T>* a, M<T>* r, int exc) { W_TRY *r = a->inverse (exc != 0); W_CATCH } \
    WRAP void w_invert##N##S (const M<T>* a, M<T>* r) { M<T> t = *a; t.invert (); *r = t; }          \
    WRAP void w_invertb##N##S (const M<T>* a, M<T>* r, int exc) { W_TRY M<T> t = *a; t.invert (exc != 0); *r = t; W_CATCH }
#define GJ(T, S, N, M)                                                                               \
    WRAP void w_gjinv##N##S (const M<T>* a, M<T>* r) { *r = a->gjInverse (); }                       \
    WRAP void w_gjinvb##N##S (const M<T>* a, M<T>* r, int exc) { W_TRY *r = a->gjInverse (exc != 0); W_CATCH } \
    WRAP void w_gjinvert##N##S (const M<T>* a, M<T>* r) { M<T> t = *a; t.gjInvert (); *r = t; }      \
    WRAP void w_gjinvertb##N##S (const M<T>* a, M<T>* r, int exc) { W_TRY M<T> t = *a; t.gjInvert (exc != 0); *r = t; W_CATCH }

INV (float, f, 22, Matrix22) INV (double, d, 22, Matrix22)
INV (float, f, 33, Matrix33) INV (double, d, 33, Matrix33)
INV (float, f, 44, Matrix44) INV (double, d, 44, Matrix44)
GJ (float, f, 33, Matrix33) GJ (double, d, 33, Matrix33)
GJ (float, f, 44, Matrix44) GJ (double, d, 44, Matrix44)
