// Conventions for wrapper translation units (extern "C", pointer-only ABI, never inlined).
// VERIF_IR     : compiled by clang++ to LLVM IR; exceptions propagate out of the wrapper and are
//                modelled by ll2c (__verif_exc = id of the thrown typeinfo).
// VERIF_NATIVE : compiled natively from the very same text; a try/catch maps the C++ exception
//                to the same ids so harness predicates can be replayed against the real code.
#pragma once
#include <stdexcept>
#include <stdint.h>
#define WRAP extern "C" __attribute__((noinline, used))
extern "C" int __verif_exc;
#ifdef VERIF_NATIVE
#define W_TRY try {
#define W_CATCH                                                                 \
    }                                                                           \
    catch (std::domain_error&) { __verif_exc = 1; }                             \
    catch (std::invalid_argument&) { __verif_exc = 2; }                         \
    catch (std::out_of_range&) { __verif_exc = 5; }                             \
    catch (std::length_error&) { __verif_exc = 6; }                             \
    catch (std::logic_error&) { __verif_exc = 3; }                              \
    catch (std::overflow_error&) { __verif_exc = 7; }                           \
    catch (std::runtime_error&) { __verif_exc = 4; }                            \
    catch (std::exception&) { __verif_exc = 8; }                                \
    catch (...) { __verif_exc = 99; }
#else
#define W_TRY {
#define W_CATCH }
#endif
