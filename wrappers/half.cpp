// Wrappers around class half (C01-O6, C03).  Linked with the real src/Imath/half.cpp (table).
#include "verif_wrap.h"
#include <half.h>
#include <halfLimits.h>
#include <halfFunction.h>
#include <limits>
using namespace IMATH_NAMESPACE;
typedef std::numeric_limits<half> HL;

static inline half hb (uint16_t b) { return half (half::FromBits, b); }

WRAP uint16_t w_half_ctor (float f) { return half (f).bits (); }
WRAP uint16_t w_half_assign (uint16_t old, float f) { half h = hb (old); h = f; return h.bits (); }
WRAP float    w_half_cast (uint16_t b) { return float (hb (b)); }
WRAP uint16_t w_half_neg (uint16_t b) { return (-hb (b)).bits (); }
WRAP uint16_t w_half_round (uint16_t b, unsigned n) { return hb (b).round (n).bits (); }

#define OPW(name, op)                                                                             \
    WRAP uint16_t w_half_##name##_h (uint16_t a, uint16_t b) { half x = hb (a); x op hb (b); return x.bits (); } \
    WRAP uint16_t w_half_##name##_f (uint16_t a, float f) { half x = hb (a); x op f; return x.bits (); }
OPW (add, +=)
OPW (sub, -=)
OPW (mul, *=)
OPW (div, /=)

WRAP unsigned w_half_class (uint16_t b)
{
    half h = hb (b);
    return (h.isFinite () ? 1u : 0) | (h.isNormalized () ? 2u : 0) | (h.isDenormalized () ? 4u : 0) | (h.isZero () ? 8u : 0) |
           (h.isNan () ? 16u : 0) | (h.isInfinity () ? 32u : 0) | (h.isNegative () ? 64u : 0);
}
WRAP uint16_t w_half_limit (int which)
{
    switch (which)
    {
        case 0: return HL::min ().bits ();
        case 1: return HL::max ().bits ();
        case 2: return HL::lowest ().bits ();
        case 3: return HL::epsilon ().bits ();
        case 4: return HL::round_error ().bits ();
        case 5: return HL::infinity ().bits ();
        case 6: return HL::quiet_NaN ().bits ();
        case 7: return HL::signaling_NaN ().bits ();
        case 8: return HL::denorm_min ().bits ();
        case 9: return half::posInf ().bits ();
        case 10: return half::negInf ().bits ();
        case 11: return half::qNan ().bits ();
        case 12: return half::sNan ().bits ();
    }
    return 0;
}
WRAP int w_half_limit_int (int which)
{
    switch (which)
    {
        case 0: return HL::digits;
        case 1: return HL::digits10;
        case 2: return HL::max_digits10;
        case 3: return HL::radix;
        case 4: return HL::min_exponent;
        case 5: return HL::max_exponent;
        case 6: return HL::min_exponent10;
        case 7: return HL::max_exponent10;
        case 8: return HL::is_signed;
        case 9: return HL::has_infinity && HL::has_quiet_NaN && HL::has_signaling_NaN && HL::has_denorm == std::denorm_present;
        case 10: return HL::is_specialized;
    }
    return 0;
}
WRAP double w_half_macro (int which)
{
    switch (which)
    {
        case 0: return HALF_DENORM_MIN;
        case 1: return HALF_NRM_MIN;
        case 2: return HALF_MIN;
        case 3: return HALF_MAX;
        case 4: return HALF_EPSILON;
        case 5: return HALF_MANT_DIG;
        case 6: return HALF_DIG;
        case 7: return HALF_DECIMAL_DIG;
        case 8: return HALF_RADIX;
        case 9: return HALF_DENORM_MIN_EXP;
        case 10: return HALF_MAX_EXP;
        case 11: return HALF_DENORM_MIN_10_EXP;
        case 12: return HALF_MAX_10_EXP;
    }
    return 0;
}
