// C04-O4: structure of operator<< for the aggregate types (which characters and which numbers, in which order).
#include "verif_wrap.h"
#include <iostream>
#include <ImathVec.h>
#include <ImathColor.h>
#include <ImathShear.h>
#include <ImathQuat.h>
#include <ImathMatrix.h>
using namespace IMATH_NAMESPACE;
#define PR(TAG, A, T) WRAP void w_print_##TAG (std::ostream* os, const T* a) { *os << *reinterpret_cast<const A*> (a); }
PR (V2f, Vec2<float>, float) PR (V3f, Vec3<float>, float) PR (V4f, Vec4<float>, float)
PR (V2i, Vec2<int>, int) PR (V3d, Vec3<double>, double)
PR (C3f, Color3<float>, float) PR (C4f, Color4<float>, float)
PR (S6f, Shear6<float>, float) PR (S6d, Shear6<double>, double)
PR (Qf, Quat<float>, float) PR (Qd, Quat<double>, double)
PR (M22f, Matrix22<float>, float) PR (M33f, Matrix33<float>, float) PR (M44f, Matrix44<float>, float) PR (M44d, Matrix44<double>, double)
