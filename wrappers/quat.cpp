// C10: quaternion / matrix / axis-angle consistency (float and double).
#include "verif_wrap.h"
#include <ImathQuat.h>
#include <ImathMatrix.h>
#include <ImathMatrixAlgo.h>
using namespace IMATH_NAMESPACE;

#define INST(T, S)                                                                                                   \
    WRAP void w_q_rotate##S (const Quat<T>* q, const Vec3<T>* v, Vec3<T>* r) { *r = q->rotateVector (*v); }           \
    WRAP void w_q_vtimesq##S (const Quat<T>* q, const Vec3<T>* v, Vec3<T>* r) { *r = *v * *q; }                        \
    WRAP void w_q_m33##S (const Quat<T>* q, Matrix33<T>* m) { *m = q->toMatrix33 (); }                                \
    WRAP void w_q_m44##S (const Quat<T>* q, Matrix44<T>* m) { *m = q->toMatrix44 (); }                                \
    WRAP void w_q_mul_m33##S (const Quat<T>* a, const Quat<T>* b, Matrix33<T>* m) { *m = (*a * *b).toMatrix33 (); }   \
    WRAP void w_q_times_inverse##S (const Quat<T>* q, Quat<T>* r) { *r = *q * q->inverse (); }                        \
    WRAP void w_q_inverse##S (const Quat<T>* q, Quat<T>* r) { *r = q->inverse (); }                                   \
    WRAP void w_q_invert##S (const Quat<T>* q, Quat<T>* r) { Quat<T> t = *q; t.invert (); *r = t; }                   \
    WRAP void w_q_conj##S (const Quat<T>* q, Quat<T>* r) { *r = ~*q; }                                                \
    WRAP void w_q_normalized##S (const Quat<T>* q, Quat<T>* r) { *r = q->normalized (); }                             \
    WRAP void w_q_normalize##S (const Quat<T>* q, Quat<T>* r) { Quat<T> t = *q; t.normalize (); *r = t; }             \
    WRAP void w_q_setaxisangle_m33##S (const Vec3<T>* a, T ang, Matrix33<T>* m) { Quat<T> q; q.setAxisAngle (*a, ang); *m = q.toMatrix33 (); } \
    WRAP void w_q_setaxisangle##S (const Vec3<T>* a, T ang, Quat<T>* q) { q->setAxisAngle (*a, ang); }                \
    WRAP void w_q_extract##S (const Quat<T>* q, Quat<T>* r) { *r = extractQuat (q->toMatrix44 ()); }                  \
    WRAP void w_q_setrotation##S (const Vec3<T>* from, const Vec3<T>* to, Quat<T>* q) { q->setRotation (*from, *to); } \
    WRAP void w_q_slerp##S (const Quat<T>* a, const Quat<T>* b, T t, Quat<T>* r) { *r = slerp (*a, *b, t); }          \
    WRAP void w_q_slerp_shortest##S (const Quat<T>* a, const Quat<T>* b, T t, Quat<T>* r) { *r = slerpShortestArc (*a, *b, t); } \
    WRAP void w_q_slerp_t0##S (const Quat<T>* a, const Quat<T>* b, Quat<T>* r) { *r = slerp (*a, *b, T (0)); }              \
    WRAP void w_q_slerp_t1##S (const Quat<T>* a, const Quat<T>* b, Quat<T>* r) { *r = slerp (*a, *b, T (1)); }              \
    WRAP void w_q_slerp_t2##S (const Quat<T>* a, const Quat<T>* b, Quat<T>* r) { *r = slerp (*a, *b, T (2)); }              \
    WRAP void w_q_slerp_tm1##S (const Quat<T>* a, const Quat<T>* b, Quat<T>* r) { *r = slerp (*a, *b, T (-1)); }            \
    WRAP void w_q_slerp_shortest_t0##S (const Quat<T>* a, const Quat<T>* b, Quat<T>* r) { *r = slerpShortestArc (*a, *b, T (0)); } \
    WRAP void w_q_slerp_shortest_t1##S (const Quat<T>* a, const Quat<T>* b, Quat<T>* r) { *r = slerpShortestArc (*a, *b, T (1)); } \
    WRAP void w_rotation_matrix##S (const Vec3<T>* from, const Vec3<T>* to, Matrix44<T>* m) { *m = rotationMatrix (*from, *to); }

INST (float, f)
INST (double, d)
