/* runtime shared by natively built wrappers and natively built generated C */
#include <stdint.h>
int __verif_exc;
uint64_t __verif_exc_buf[32];
int verif_get_exc(void) { return __verif_exc; }
void verif_clear_exc(void) { __verif_exc = 0; }
