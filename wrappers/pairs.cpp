// C07: checked / unchecked pairs not covered by veclen.cpp and inverse.cpp: Vec3(Vec4[,InfException]) and Frustum ...Exc.
#include "verif_wrap.h"
#include <ImathVec.h>
#include <ImathFrustum.h>
using namespace IMATH_NAMESPACE;

WRAP void w_v3_from_v4 (const Vec4<float>* v, Vec3<float>* r) { *r = Vec3<float> (*v); }
WRAP void w_v3_from_v4_exc (const Vec4<float>* v, Vec3<float>* r) { W_TRY *r = Vec3<float> (*v, INF_EXCEPTION); W_CATCH }

// Frustum<float> built from its six parameters and the projection kind (set() stores them unchanged)
static Frustum<float> mk (const float* p, int ortho) { return Frustum<float> (p[0], p[1], p[2], p[3], p[4], p[5], ortho != 0); }
WRAP void w_fr_proj (const float* p, int o, Matrix44<float>* m) { *m = mk (p, o).projectionMatrix (); }
WRAP void w_fr_proj_exc (const float* p, int o, Matrix44<float>* m) { W_TRY *m = mk (p, o).projectionMatrixExc (); W_CATCH }
WRAP void w_fr_p2s (const float* p, int o, const Vec3<float>* pt, Vec2<float>* r) { *r = mk (p, o).projectPointToScreen (*pt); }
WRAP void w_fr_p2s_exc (const float* p, int o, const Vec3<float>* pt, Vec2<float>* r) { W_TRY *r = mk (p, o).projectPointToScreenExc (*pt); W_CATCH }
WRAP float w_fr_nz2d (const float* p, int o, float z) { return mk (p, o).normalizedZToDepth (z); }
WRAP float w_fr_nz2d_exc (const float* p, int o, float z) { float r = 0; W_TRY r = mk (p, o).normalizedZToDepthExc (z); W_CATCH return r; }
WRAP float w_fr_sr (const float* p, int o, const Vec3<float>* pt, float rad) { return mk (p, o).screenRadius (*pt, rad); }
WRAP float w_fr_sr_exc (const float* p, int o, const Vec3<float>* pt, float rad) { float r = 0; W_TRY r = mk (p, o).screenRadiusExc (*pt, rad); W_CATCH return r; }
WRAP float w_fr_wr (const float* p, int o, const Vec3<float>* pt, float rad) { return mk (p, o).worldRadius (*pt, rad); }
WRAP float w_fr_wr_exc (const float* p, int o, const Vec3<float>* pt, float rad) { float r = 0; W_TRY r = mk (p, o).worldRadiusExc (*pt, rad); W_CATCH return r; }
WRAP float w_fr_aspect (const float* p, int o) { return mk (p, o).aspect (); }
WRAP float w_fr_aspect_exc (const float* p, int o) { float r = 0; W_TRY r = mk (p, o).aspectExc (); W_CATCH return r; }
WRAP float w_fr_z2d (const float* p, int o, long z, long zmin, long zmax) { return mk (p, o).ZToDepth (z, zmin, zmax); }
WRAP float w_fr_z2d_exc (const float* p, int o, long z, long zmin, long zmax) { float r = 0; W_TRY r = mk (p, o).ZToDepthExc (z, zmin, zmax); W_CATCH return r; }
WRAP long w_fr_d2z (const float* p, int o, float depth, long zmin, long zmax) { return mk (p, o).DepthToZ (depth, zmin, zmax); }
WRAP long w_fr_d2z_exc (const float* p, int o, float depth, long zmin, long zmax) { long r = 0; W_TRY r = mk (p, o).DepthToZExc (depth, zmin, zmax); W_CATCH return r; }

// set(near,far,fovx,fovy,aspect) / setExc: the seven stored parameters after the call
static void dump (const Frustum<float>& f, float* r) { r[0] = f.nearPlane (); r[1] = f.farPlane (); r[2] = f.left (); r[3] = f.right (); r[4] = f.top (); r[5] = f.bottom (); r[6] = f.orthographic () ? 1.f : 0.f; }
WRAP void w_fr_setfov (const float* p, int o, const float* a, float* r) { Frustum<float> f = mk (p, o); f.set (a[0], a[1], a[2], a[3], a[4]); dump (f, r); }
WRAP void w_fr_setfov_exc (const float* p, int o, const float* a, float* r) { Frustum<float> f = mk (p, o); W_TRY f.setExc (a[0], a[1], a[2], a[3], a[4]); dump (f, r); W_CATCH }
