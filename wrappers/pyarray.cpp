// C19: PyImath FixedArray indexing and read-only protection.  Compiled with the real Python.h / boost.python headers.
#include <Python.h>
#include "verif_wrap.h"
#include <PyImathFixedArray.h>
#include <ImathVec.h>
using namespace PyImath;
typedef FixedArray<int> IA;

WRAP size_t w_canon (const IA* a, Py_ssize_t i) { size_t r = 0; W_TRY r = a->canonical_index (i); W_CATCH return r; }
WRAP int  w_getitem (IA* a, Py_ssize_t i) { int r = 0; W_TRY r = a->getitem (i); W_CATCH return r; }
WRAP int  w_getitem_const (const IA* a, Py_ssize_t i) { int r = 0; W_TRY r = a->getitem (i); W_CATCH return r; }
WRAP long w_len (const IA* a) { return a->len (); }
WRAP void w_setitem_scalar (IA* a, PyObject* idx, int v) { W_TRY a->setitem_scalar (idx, v); W_CATCH }
WRAP void w_setitem_vector (IA* a, PyObject* idx, const IA* data) { W_TRY a->setitem_vector (idx, *data); W_CATCH }
WRAP void w_setitem_scalar_mask (IA* a, const IA* mask, int v) { W_TRY a->setitem_scalar_mask (*mask, v); W_CATCH }
WRAP void w_setitem_vector_mask (IA* a, const IA* mask, const IA* data) { W_TRY a->setitem_vector_mask (*mask, *data); W_CATCH }
WRAP void w_index_store (IA* a, size_t i, int v) { W_TRY (*a)[i] = v; W_CATCH }
WRAP int  w_index_load (const IA* a, size_t i) { return (*a)[i]; }
WRAP void w_direct_store (IA* a, size_t i, int v) { W_TRY a->direct_index (i) = v; W_CATCH }
WRAP void w_wda_store (IA* a, size_t i, int v) { W_TRY IA::WritableDirectAccess acc (*a); acc[i] = v; W_CATCH }
WRAP void w_wma_store (IA* a, size_t i, int v) { W_TRY IA::WritableMaskedAccess acc (*a); acc[i] = v; W_CATCH }
WRAP int  w_rda_load (const IA* a, size_t i) { int r = 0; W_TRY IA::ReadOnlyDirectAccess acc (*a); r = acc[i]; W_CATCH return r; }
WRAP int  w_rma_load (const IA* a, size_t i) { int r = 0; W_TRY IA::ReadOnlyMaskedAccess acc (*a); r = acc[i]; W_CATCH return r; }
WRAP size_t w_match_dimension (const IA* a, const IA* b, int strict) { size_t r = 0; W_TRY r = a->match_dimension (*b, strict != 0); W_CATCH return r; }
WRAP void w_make_readonly (IA* a) { a->makeReadOnly (); }
WRAP int  w_writable (const IA* a) { return a->writable (); }
