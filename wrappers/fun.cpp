// C17: scalar utilities, root finders, colour conversions.  Linked with the real ImathFun.cpp / ImathColorAlgo.cpp.
#include "verif_wrap.h"
#include <ImathFun.h>
#include <ImathMath.h>
#include <ImathRoots.h>
#include <ImathColorAlgo.h>
using namespace IMATH_NAMESPACE;

WRAP int w_floorf (float x) { return IMATH_NAMESPACE::floor (x); }
WRAP int w_ceilf (float x) { return IMATH_NAMESPACE::ceil (x); }
WRAP int w_truncf (float x) { return IMATH_NAMESPACE::trunc (x); }
WRAP int w_floord (double x) { return IMATH_NAMESPACE::floor (x); }
WRAP int w_ceild (double x) { return IMATH_NAMESPACE::ceil (x); }
WRAP int w_truncd (double x) { return IMATH_NAMESPACE::trunc (x); }
WRAP int w_divs (int x, int y) { return divs (x, y); }
WRAP int w_mods (int x, int y) { return mods (x, y); }
WRAP int w_divp (int x, int y) { return divp (x, y); }
WRAP int w_modp (int x, int y) { return modp (x, y); }
WRAP int w_absi (int a) { return IMATH_NAMESPACE::abs (a); }
WRAP float w_absf (float a) { return IMATH_NAMESPACE::abs (a); }
WRAP int w_signi (int a) { return sign (a); }
WRAP int w_signf (float a) { return sign (a); }
WRAP int w_cmpi (int a, int b) { return cmp (a, b); }
WRAP int w_cmpf (float a, float b) { return cmp (a, b); }
WRAP int w_cmptf (float a, float b, float t) { return cmpt (a, b, t); }
WRAP int w_cmpti (int a, int b, int t) { return cmpt (a, b, t); }
WRAP int w_iszerof (float a, float t) { return iszero (a, t); }
WRAP int w_iszeroi (int a, int t) { return iszero (a, t); }
WRAP int w_equalf (float a, float b, float t) { return equal (a, b, t); }
WRAP int w_clampi (int a, int l, int h) { return clamp (a, l, h); }
WRAP float w_clampf (float a, float l, float h) { return clamp (a, l, h); }
WRAP float w_lerpf (float a, float b, float t) { return lerp (a, b, t); }
WRAP float w_ulerpf (float a, float b, float t) { return ulerp (a, b, t); }
WRAP double w_lerpd (double a, double b, double t) { return lerp (a, b, t); }
WRAP double w_ulerpd (double a, double b, double t) { return ulerp (a, b, t); }
WRAP float w_lerpfactorf (float m, float a, float b) { return lerpfactor (m, a, b); }
WRAP double w_lerpfactord (double m, double a, double b) { return lerpfactor (m, a, b); }
WRAP double w_lerp_of_lerpfactord (double m, double a, double b) { return lerp (a, b, lerpfactor (m, a, b)); }
WRAP float w_lerp_of_lerpfactorf (float m, float a, float b) { return lerp (a, b, lerpfactor (m, a, b)); }
WRAP int w_finitef (float f) { return IMATH_NAMESPACE::finitef (f); }
WRAP int w_finited (double d) { return IMATH_NAMESPACE::finited (d); }
WRAP float w_succf (float f) { return succf (f); }
WRAP float w_predf (float f) { return predf (f); }
WRAP double w_succd (double d) { return succd (d); }
WRAP double w_predd (double d) { return predd (d); }
WRAP int w_eq_abs_f (float a, float b, float e) { return equalWithAbsError (a, b, e); }
WRAP int w_eq_rel_f (float a, float b, float e) { return equalWithRelError (a, b, e); }
WRAP int w_eq_abs_i (int a, int b, int e) { return equalWithAbsError (a, b, e); }

WRAP int w_solve_linear_d (double a, double b, double* x) { return solveLinear (a, b, *x); }
WRAP int w_solve_quadratic_d (double a, double b, double c, double* x) { return solveQuadratic (a, b, c, x); }
WRAP int w_solve_linear_f (float a, float b, float* x) { return solveLinear (a, b, *x); }
WRAP int w_solve_quadratic_f (float a, float b, float c, float* x) { return solveQuadratic (a, b, c, x); }
WRAP int w_solve_cubic_d (double a, double b, double c, double d, double* x) { return solveCubic (a, b, c, d, x); }
WRAP int w_solve_cubic_f (float a, float b, float c, float d, float* x) { return solveCubic (a, b, c, d, x); }

WRAP unsigned w_rgb2packed3f (const Vec3<float>* c) { return rgb2packed (*c); }
WRAP unsigned w_rgb2packed4f (const Color4<float>* c) { return rgb2packed (*c); }
WRAP void w_packed2rgb3f (unsigned p, Vec3<float>* c) { packed2rgb (p, *c); }
WRAP void w_packed2rgb4f (unsigned p, Color4<float>* c) { packed2rgb (p, *c); }
WRAP void w_hsv2rgb3d (const Vec3<double>* in, Vec3<double>* out) { *out = hsv2rgb_d (*in); }
WRAP void w_hsv2rgb4d (const Color4<double>* in, Color4<double>* out) { *out = hsv2rgb_d (*in); }
WRAP void w_rgb2hsv3d (const Vec3<double>* in, Vec3<double>* out) { *out = rgb2hsv_d (*in); }
WRAP void w_rgb2hsv4d (const Color4<double>* in, Color4<double>* out) { *out = rgb2hsv_d (*in); }
WRAP void w_hsv2rgb3f (const Vec3<float>* in, Vec3<float>* out) { *out = hsv2rgb (*in); }
WRAP void w_rgb2hsv3f (const Vec3<float>* in, Vec3<float>* out) { *out = rgb2hsv (*in); }
WRAP void w_hsv2rgb3uc (const Vec3<unsigned char>* in, Vec3<unsigned char>* out) { *out = hsv2rgb (*in); }
WRAP void w_rgb2hsv3uc (const Vec3<unsigned char>* in, Vec3<unsigned char>* out) { *out = rgb2hsv (*in); }
WRAP int w_norm_cubic_d (double r, double s, double t, double* x) { return solveNormalizedCubic (r, s, t, x); }
// double-root family with exactly representable intermediate values: roots c-2b (simple) and c+b (double); r = -3c
WRAP int w_norm_cubic_double_root_d (double b, double c, double* x)
{ double a = c - 2 * b, d = c + b; return solveNormalizedCubic (-3 * c, d * d + 2 * a * d, -a * d * d, x); }
