// C15: line / plane / sphere / triangle primitives (float and double).
#include "verif_wrap.h"
#include <ImathLine.h>
#include <ImathLineAlgo.h>
#include <ImathPlane.h>
#include <ImathSphere.h>
#include <ImathVecAlgo.h>
#include <ImathBox.h>
using namespace IMATH_NAMESPACE;

#define INST(T, S)                                                                                                     \
    WRAP void w_line_set##S (const Vec3<T>* p0, const Vec3<T>* p1, Line3<T>* l) { l->set (*p0, *p1); }                  \
    WRAP void w_line_ctor##S (const Vec3<T>* p0, const Vec3<T>* p1, Line3<T>* l) { *l = Line3<T> (*p0, *p1); }          \
    WRAP void w_line_at##S (const Line3<T>* l, T t, Vec3<T>* r) { *r = (*l) (t); }                                      \
    WRAP void w_line_closest_pt##S (const Line3<T>* l, const Vec3<T>* p, Vec3<T>* r) { *r = l->closestPointTo (*p); }   \
    WRAP T w_line_dist_pt##S (const Line3<T>* l, const Vec3<T>* p) { return l->distanceTo (*p); }                       \
    WRAP void w_line_closest_line##S (const Line3<T>* l, const Line3<T>* m, Vec3<T>* r) { *r = l->closestPointTo (*m); } \
    WRAP T w_line_dist_line##S (const Line3<T>* l, const Line3<T>* m) { return l->distanceTo (*m); }                    \
    WRAP int w_closest_points##S (const Line3<T>* l, const Line3<T>* m, Vec3<T>* p1, Vec3<T>* p2) { return closestPoints (*l, *m, *p1, *p2); } \
    WRAP int w_tri_intersect##S (const Line3<T>* l, const Vec3<T>* v0, const Vec3<T>* v1, const Vec3<T>* v2, Vec3<T>* pt, Vec3<T>* bary, T* front) \
    { bool f = false; bool r = intersect (*l, *v0, *v1, *v2, *pt, *bary, f); *front = f ? T (1) : T (0); return r; }                    \
    WRAP void w_closest_vertex_line##S (const Vec3<T>* v0, const Vec3<T>* v1, const Vec3<T>* v2, const Line3<T>* l, Vec3<T>* r) { *r = closestVertex (*v0, *v1, *v2, *l); } \
    WRAP void w_rotate_point##S (const Vec3<T>* p, const Line3<T>* l, T ang, Vec3<T>* r) { *r = rotatePoint (*p, *l, ang); } \
    WRAP void w_plane_set3##S (const Vec3<T>* a, const Vec3<T>* b, const Vec3<T>* c, Plane3<T>* p) { p->set (*a, *b, *c); } \
    WRAP void w_plane_set_pn##S (const Vec3<T>* pt, const Vec3<T>* n, Plane3<T>* p) { p->set (*pt, *n); }               \
    WRAP void w_plane_set_nd##S (const Vec3<T>* n, T d, Plane3<T>* p) { p->set (*n, d); }                               \
    WRAP T w_plane_dist##S (const Plane3<T>* p, const Vec3<T>* pt) { return p->distanceTo (*pt); }                      \
    WRAP void w_plane_reflect_pt##S (const Plane3<T>* p, const Vec3<T>* pt, Vec3<T>* r) { *r = p->reflectPoint (*pt); } \
    WRAP void w_plane_reflect_pt2##S (const Plane3<T>* p, const Vec3<T>* pt, Vec3<T>* r) { *r = p->reflectPoint (p->reflectPoint (*pt)); } \
    WRAP void w_plane_reflect_vec##S (const Plane3<T>* p, const Vec3<T>* v, Vec3<T>* r) { *r = p->reflectVector (*v); } \
    WRAP void w_plane_reflect_vec2##S (const Plane3<T>* p, const Vec3<T>* v, Vec3<T>* r) { *r = p->reflectVector (p->reflectVector (*v)); } \
    WRAP int w_plane_intersect##S (const Plane3<T>* p, const Line3<T>* l, Vec3<T>* r) { return p->intersect (*l, *r); } \
    WRAP int w_plane_intersect_t##S (const Plane3<T>* p, const Line3<T>* l, T* t) { return p->intersectT (*l, *t); }    \
    WRAP void w_plane_neg##S (const Plane3<T>* p, Plane3<T>* r) { *r = -*p; }                                           \
    WRAP void w_plane_xform##S (const Plane3<T>* p, const Matrix44<T>* m, Plane3<T>* r) { *r = *p * *m; }               \
    WRAP int w_sphere_intersect_t##S (const Sphere3<T>* s, const Line3<T>* l, T* t) { return s->intersectT (*l, *t); }  \
    WRAP int w_sphere_intersect##S (const Sphere3<T>* s, const Line3<T>* l, Vec3<T>* r) { return s->intersect (*l, *r); } \
    WRAP void w_sphere_circumscribe##S (const Box<Vec3<T>>* b, Sphere3<T>* s) { s->circumscribe (*b); }                 \
    WRAP void w_project##S (const Vec3<T>* s, const Vec3<T>* t, Vec3<T>* r) { *r = project (*s, *t); }                  \
    WRAP void w_orthogonal##S (const Vec3<T>* s, const Vec3<T>* t, Vec3<T>* r) { *r = orthogonal (*s, *t); }            \
    WRAP void w_reflect##S (const Vec3<T>* s, const Vec3<T>* t, Vec3<T>* r) { *r = reflect (*s, *t); }                  \
    WRAP void w_closest_vertex##S (const Vec3<T>* v0, const Vec3<T>* v1, const Vec3<T>* v2, const Vec3<T>* p, Vec3<T>* r) { *r = closestVertex (*v0, *v1, *v2, *p); }

INST (float, f)
INST (double, d)
