// C19 (buffer interface): the BufferAPI classes of PyImathBufferProtocol.cpp (they live in an anonymous namespace of
// that .cpp, so the file is included textually) and fixedArrayFromBuffer.
#include <Python.h>
#include "verif_wrap.h"
#include <PyImathBufferProtocol.cpp>
using namespace PyImath;
using namespace IMATH_NAMESPACE;

// what getbuffer() copies into the Py_buffer: len, itemsize, ndim, shape[], strides[], readonly
#define DESCRIBE(TAG, ET)                                                                                      \
    WRAP void w_buf_describe_##TAG (FixedArray<ET>* a, long* out)                                              \
    { W_TRY SharedBufferAPI<FixedArray<ET> > api (*a);                                                         \
      out[0] = api.SharedBufferAPI<FixedArray<ET> >::numBytes (); out[1] = api.atomicSize (); out[2] = api.dimensions; \
      out[3] = api.shape[0]; out[4] = api.dimensions > 1 ? api.shape[1] : 1; out[5] = api.stride[0]; out[6] = api.dimensions > 1 ? api.stride[1] : 0; \
      out[7] = api.SharedBufferAPI<FixedArray<ET> >::readOnly (); out[8] = (char*) api.SharedBufferAPI<FixedArray<ET> >::buffer () - (char*) &a->unchecked_direct_index (0); W_CATCH }
DESCRIBE (i, int) DESCRIBE (f, float) DESCRIBE (d, double) DESCRIBE (s, short)
DESCRIBE (v2f, Vec2<float>) DESCRIBE (v3f, Vec3<float>) DESCRIBE (v4d, Vec4<double>) DESCRIBE (v3i, Vec3<int>)

WRAP void* w_from_buffer_f (PyObject* o) { void* r = 0; W_TRY r = fixedArrayFromBuffer<FixedArray<float> > (o); W_CATCH return r; }
WRAP void* w_from_buffer_v3f (PyObject* o) { void* r = 0; W_TRY r = fixedArrayFromBuffer<FixedArray<Vec3<float> > > (o); W_CATCH return r; }
