// C13 / C14: ImathBoxAlgo.h (float and double).
#include "verif_wrap.h"
#include <ImathBox.h>
#include <ImathBoxAlgo.h>
#include <ImathLine.h>
using namespace IMATH_NAMESPACE;

#define INST(T, S)                                                                                                    \
    WRAP int w_raybox_ip##S (const Box<Vec3<T>>* b, const Line3<T>* r, Vec3<T>* ip) { return intersects (*b, *r, *ip); } \
    WRAP int w_raybox##S (const Box<Vec3<T>>* b, const Line3<T>* r) { return intersects (*b, *r); }                     \
    WRAP int w_entryexit##S (const Line3<T>* r, const Box<Vec3<T>>* b, Vec3<T>* en, Vec3<T>* ex) { return findEntryAndExitPoints (*r, *b, *en, *ex); } \
    WRAP void w_clip3##S (const Vec3<T>* p, const Box<Vec3<T>>* b, Vec3<T>* r) { *r = clip (*p, *b); }                  \
    WRAP void w_clip2##S (const Vec2<T>* p, const Box<Vec2<T>>* b, Vec2<T>* r) { *r = clip (*p, *b); }                  \
    WRAP void w_closestin3##S (const Vec3<T>* p, const Box<Vec3<T>>* b, Vec3<T>* r) { *r = closestPointInBox (*p, *b); } \
    WRAP void w_closeston3##S (const Vec3<T>* p, const Box<Vec3<T>>* b, Vec3<T>* r) { *r = closestPointOnBox (*p, *b); } \
    WRAP void w_xform##S (const Box<Vec3<T>>* b, const Matrix44<T>* m, Box<Vec3<T>>* r) { *r = transform (*b, *m); }    \
    WRAP void w_xform_out##S (const Box<Vec3<T>>* b, const Matrix44<T>* m, Box<Vec3<T>>* r) { transform (*b, *m, *r); } \
    WRAP void w_affine##S (const Box<Vec3<T>>* b, const Matrix44<T>* m, Box<Vec3<T>>* r) { *r = affineTransform (*b, *m); } \
    WRAP void w_affine_out##S (const Box<Vec3<T>>* b, const Matrix44<T>* m, Box<Vec3<T>>* r) { affineTransform (*b, *m, *r); }

INST (float, f)
INST (double, d)
