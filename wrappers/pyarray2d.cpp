// C19: FixedArray2D<int> element access and (forward) slice assignment, as the Python bindings call them.
#include <Python.h>
#include "verif_wrap.h"
#include <PyImathFixedArray2D.h>
using namespace PyImath;
typedef FixedArray2D<int> A2;
WRAP int  w_2d_getitem (A2* a, Py_ssize_t i, Py_ssize_t j) { int r = 0; W_TRY r = a->getitem (i, j); W_CATCH return r; }
WRAP void w_2d_setitem_scalar (A2* a, PyObject* idx, int v) { W_TRY a->setitem_scalar (idx, v); W_CATCH }
WRAP void w_2d_setitem_vector (A2* a, PyObject* idx, const A2* d) { W_TRY a->setitem_vector (idx, *d); W_CATCH }
WRAP void w_2d_setitem_scalar_mask (A2* a, const A2* m, int v) { W_TRY a->setitem_scalar_mask (*m, v); W_CATCH }
WRAP void w_2d_setitem_array1d (A2* a, PyObject* idx, const FixedArray<int>* d) { W_TRY a->setitem_array1d (idx, *d); W_CATCH }
