// C04: one family of extern "C" wrappers per (aggregate type A, element type T, N components).
// Aggregates are passed as pointers to their first element (they are contiguous blocks of exactly N elements).
#pragma once
#include "verif_wrap.h"
#include <ImathVec.h>
#include <ImathColor.h>
#include <ImathShear.h>
#include <ImathQuat.h>
#include <ImathMatrix.h>
#include <ImathMath.h>
using namespace IMATH_NAMESPACE;
#define AP(A, p) (reinterpret_cast<A*> (p))
#define CAP(A, p) (reinterpret_cast<const A*> (p))

// + and - by aggregate, unary minus, ==, != : every aggregate kind
#define C04_ADDSUB(TAG, A, T)                                                                                  \
    WRAP void w_##TAG##_add (const T* a, const T* b, T* r) { *AP (A, r) = *CAP (A, a) + *CAP (A, b); }          \
    WRAP void w_##TAG##_sub (const T* a, const T* b, T* r) { *AP (A, r) = *CAP (A, a) - *CAP (A, b); }          \
    WRAP void w_##TAG##_iadd (const T* a, const T* b, T* r) { A t = *CAP (A, a); t += *CAP (A, b); *AP (A, r) = t; } \
    WRAP void w_##TAG##_isub (const T* a, const T* b, T* r) { A t = *CAP (A, a); t -= *CAP (A, b); *AP (A, r) = t; } \
    WRAP void w_##TAG##_neg (const T* a, T* r) { *AP (A, r) = -*CAP (A, a); }                                   \
    WRAP int w_##TAG##_eq (const T* a, const T* b) { return *CAP (A, a) == *CAP (A, b); }                       \
    WRAP int w_##TAG##_ne (const T* a, const T* b) { return *CAP (A, a) != *CAP (A, b); }                       \
    WRAP long w_##TAG##_sizeof () { return sizeof (A); }
// scalar * and / on the right, compound forms, scalar on the left
#define C04_SCALAR(TAG, A, T)                                                                                  \
    WRAP void w_##TAG##_muls (const T* a, T s, T* r) { *AP (A, r) = *CAP (A, a) * s; }                          \
    WRAP void w_##TAG##_divs (const T* a, T s, T* r) { *AP (A, r) = *CAP (A, a) / s; }                          \
    WRAP void w_##TAG##_imuls (const T* a, T s, T* r) { A t = *CAP (A, a); t *= s; *AP (A, r) = t; }            \
    WRAP void w_##TAG##_idivs (const T* a, T s, T* r) { A t = *CAP (A, a); t /= s; *AP (A, r) = t; }            \
    WRAP void w_##TAG##_smul (T s, const T* a, T* r) { *AP (A, r) = s * *CAP (A, a); }
// component-wise * and / by aggregate (vectors, colours, shears)
#define C04_CWISE(TAG, A, T)                                                                                   \
    WRAP void w_##TAG##_mul (const T* a, const T* b, T* r) { *AP (A, r) = *CAP (A, a) * *CAP (A, b); }          \
    WRAP void w_##TAG##_div (const T* a, const T* b, T* r) { *AP (A, r) = *CAP (A, a) / *CAP (A, b); }          \
    WRAP void w_##TAG##_imul (const T* a, const T* b, T* r) { A t = *CAP (A, a); t *= *CAP (A, b); *AP (A, r) = t; } \
    WRAP void w_##TAG##_idiv (const T* a, const T* b, T* r) { A t = *CAP (A, a); t /= *CAP (A, b); *AP (A, r) = t; }
#define C04_NEGATE(TAG, A, T)                                                                                  \
    WRAP void w_##TAG##_negate (const T* a, T* r) { A t = *CAP (A, a); t.negate (); *AP (A, r) = t; }
// operator[] addresses element i of one contiguous block
#define C04_INDEX(TAG, A, T)                                                                                   \
    WRAP long w_##TAG##_index_offset (const T* a, int i) { return (const char*) &(*AP (A, const_cast<T*> (a)))[i] - (const char*) a; } \
    WRAP T w_##TAG##_index_load (const T* a, int i) { return (*CAP (A, a))[i]; }                                \
    WRAP void w_##TAG##_index_store (T* a, int i, T v) { (*AP (A, a))[i] = v; }
// matrices: scalar += -= as well, operator[] yields rows
#define C04_MATSCALAR(TAG, A, T, N)                                                                            \
    WRAP void w_##TAG##_iadds (const T* a, T s, T* r) { A t = *CAP (A, a); t += s; *AP (A, r) = t; }            \
    WRAP void w_##TAG##_isubs (const T* a, T s, T* r) { A t = *CAP (A, a); t -= s; *AP (A, r) = t; }            \
    WRAP long w_##TAG##_rc_offset (const T* a, int i, int j) { return (const char*) &(*CAP (A, a))[i][j] - (const char*) a; } \
    WRAP void w_##TAG##_getvalue (const T* a, T* r) { const T* p = CAP (A, a)->getValue (); for (int i = 0; i < N * N; i++) r[i] = p[i]; }
#define C04_EQERR(TAG, A, T)                                                                                   \
    WRAP int w_##TAG##_eqabs (const T* a, const T* b, T e) { return CAP (A, a)->equalWithAbsError (*CAP (A, b), e); } \
    WRAP int w_##TAG##_eqrel (const T* a, const T* b, T e) { return CAP (A, a)->equalWithRelError (*CAP (A, b), e); }
#define C04_SCALAR_EQERR(S, T)                                                                                 \
    WRAP int w_sc_eqabs_##S (T a, T b, T e) { return equalWithAbsError (a, b, e); }                             \
    WRAP int w_sc_eqrel_##S (T a, T b, T e) { return equalWithRelError (a, b, e); }

#define C04_VECLIKE(TAG, A, T) C04_ADDSUB (TAG, A, T) C04_SCALAR (TAG, A, T) C04_CWISE (TAG, A, T) C04_NEGATE (TAG, A, T) C04_INDEX (TAG, A, T) C04_EQERR (TAG, A, T)
#define C04_COLOR4(TAG, A, T) C04_ADDSUB (TAG, A, T) C04_SCALAR (TAG, A, T) C04_CWISE (TAG, A, T) C04_NEGATE (TAG, A, T) C04_INDEX (TAG, A, T)
#define C04_SHEAR(TAG, A, T) C04_ADDSUB (TAG, A, T) C04_SCALAR (TAG, A, T) C04_CWISE (TAG, A, T) C04_NEGATE (TAG, A, T) C04_INDEX (TAG, A, T) C04_EQERR (TAG, A, T)
#define C04_QUAT(TAG, A, T) C04_ADDSUB (TAG, A, T) C04_SCALAR (TAG, A, T) C04_INDEX (TAG, A, T)
#define C04_MATRIX(TAG, A, T, N) C04_ADDSUB (TAG, A, T) C04_SCALAR (TAG, A, T) C04_NEGATE (TAG, A, T) C04_MATSCALAR (TAG, A, T, N) C04_EQERR (TAG, A, T)
