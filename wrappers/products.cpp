// C05: products, transposes, minors, determinants (float and double instantiations).
#include "verif_wrap.h"
#include <ImathVec.h>
#include <ImathMatrix.h>
#include <ImathMatrixAlgo.h>
#include <ImathQuat.h>
using namespace IMATH_NAMESPACE;

#define INST(T, S)                                                                                               \
    WRAP T w_dot2##S (const Vec2<T>* a, const Vec2<T>* b) { return a->dot (*b); }                                \
    WRAP T w_dot3##S (const Vec3<T>* a, const Vec3<T>* b) { return a->dot (*b); }                                \
    WRAP T w_dot4##S (const Vec4<T>* a, const Vec4<T>* b) { return a->dot (*b); }                                \
    WRAP T w_dotop2##S (const Vec2<T>* a, const Vec2<T>* b) { return *a ^ *b; }                                  \
    WRAP T w_dotop3##S (const Vec3<T>* a, const Vec3<T>* b) { return *a ^ *b; }                                  \
    WRAP T w_dotop4##S (const Vec4<T>* a, const Vec4<T>* b) { return *a ^ *b; }                                  \
    WRAP T w_cross2##S (const Vec2<T>* a, const Vec2<T>* b) { return a->cross (*b); }                            \
    WRAP T w_cross2op##S (const Vec2<T>* a, const Vec2<T>* b) { return *a % *b; }                                \
    WRAP void w_cross3##S (const Vec3<T>* a, const Vec3<T>* b, Vec3<T>* r) { *r = a->cross (*b); }               \
    WRAP void w_cross3op##S (const Vec3<T>* a, const Vec3<T>* b, Vec3<T>* r) { *r = *a % *b; }                   \
    WRAP void w_cross3asg##S (const Vec3<T>* a, const Vec3<T>* b, Vec3<T>* r) { Vec3<T> t = *a; t %= *b; *r = t; } \
    WRAP void w_qmul##S (const Quat<T>* a, const Quat<T>* b, Quat<T>* r) { *r = *a * *b; }                       \
    WRAP void w_qmulasg##S (const Quat<T>* a, const Quat<T>* b, Quat<T>* r) { Quat<T> t = *a; t *= *b; *r = t; } \
    WRAP void w_mmul2##S (const Matrix22<T>* a, const Matrix22<T>* b, Matrix22<T>* r) { *r = *a * *b; }          \
    WRAP void w_mmul3##S (const Matrix33<T>* a, const Matrix33<T>* b, Matrix33<T>* r) { *r = *a * *b; }          \
    WRAP void w_mmul4##S (const Matrix44<T>* a, const Matrix44<T>* b, Matrix44<T>* r) { *r = *a * *b; }          \
    WRAP void w_mmulasg2##S (const Matrix22<T>* a, const Matrix22<T>* b, Matrix22<T>* r) { Matrix22<T> t = *a; t *= *b; *r = t; } \
    WRAP void w_mmulasg3##S (const Matrix33<T>* a, const Matrix33<T>* b, Matrix33<T>* r) { Matrix33<T> t = *a; t *= *b; *r = t; } \
    WRAP void w_mmulasg4##S (const Matrix44<T>* a, const Matrix44<T>* b, Matrix44<T>* r) { Matrix44<T> t = *a; t *= *b; *r = t; } \
    WRAP void w_mmulstat4##S (const Matrix44<T>* a, const Matrix44<T>* b, Matrix44<T>* r) { Matrix44<T>::multiply (*a, *b, *r); } \
    WRAP void w_mmulstatb4##S (const Matrix44<T>* a, const Matrix44<T>* b, Matrix44<T>* r) { *r = Matrix44<T>::multiply (*a, *b); } \
    WRAP void w_v2m22##S (const Vec2<T>* v, const Matrix22<T>* m, Vec2<T>* r) { *r = *v * *m; }                  \
    WRAP void w_v2m22asg##S (const Vec2<T>* v, const Matrix22<T>* m, Vec2<T>* r) { Vec2<T> t = *v; t *= *m; *r = t; } \
    WRAP void w_v2m33##S (const Vec2<T>* v, const Matrix33<T>* m, Vec2<T>* r) { *r = *v * *m; }                  \
    WRAP void w_v2m33asg##S (const Vec2<T>* v, const Matrix33<T>* m, Vec2<T>* r) { Vec2<T> t = *v; t *= *m; *r = t; } \
    WRAP void w_v3m33##S (const Vec3<T>* v, const Matrix33<T>* m, Vec3<T>* r) { *r = *v * *m; }                  \
    WRAP void w_v3m33asg##S (const Vec3<T>* v, const Matrix33<T>* m, Vec3<T>* r) { Vec3<T> t = *v; t *= *m; *r = t; } \
    WRAP void w_v3m44##S (const Vec3<T>* v, const Matrix44<T>* m, Vec3<T>* r) { *r = *v * *m; }                  \
    WRAP void w_v3m44asg##S (const Vec3<T>* v, const Matrix44<T>* m, Vec3<T>* r) { Vec3<T> t = *v; t *= *m; *r = t; } \
    WRAP void w_v4m44##S (const Vec4<T>* v, const Matrix44<T>* m, Vec4<T>* r) { *r = *v * *m; }                  \
    WRAP void w_v4m44asg##S (const Vec4<T>* v, const Matrix44<T>* m, Vec4<T>* r) { Vec4<T> t = *v; t *= *m; *r = t; } \
    WRAP void w_multvec33##S (const Vec2<T>* v, const Matrix33<T>* m, Vec2<T>* r) { m->multVecMatrix (*v, *r); } \
    WRAP void w_multvec44##S (const Vec3<T>* v, const Matrix44<T>* m, Vec3<T>* r) { m->multVecMatrix (*v, *r); } \
    WRAP void w_multdir22##S (const Vec2<T>* v, const Matrix22<T>* m, Vec2<T>* r) { m->multDirMatrix (*v, *r); } \
    WRAP void w_multdir33##S (const Vec2<T>* v, const Matrix33<T>* m, Vec2<T>* r) { m->multDirMatrix (*v, *r); } \
    WRAP void w_multdir44##S (const Vec3<T>* v, const Matrix44<T>* m, Vec3<T>* r) { m->multDirMatrix (*v, *r); } \
    WRAP void w_outer3##S (const Vec3<T>* a, const Vec3<T>* b, Matrix33<T>* r) { *r = outerProduct (*a, *b); }   \
    WRAP void w_outer4##S (const Vec4<T>* a, const Vec4<T>* b, Matrix44<T>* r) { *r = outerProduct (*a, *b); }   \
    WRAP void w_transposed2##S (const Matrix22<T>* a, Matrix22<T>* r) { *r = a->transposed (); }                 \
    WRAP void w_transposed3##S (const Matrix33<T>* a, Matrix33<T>* r) { *r = a->transposed (); }                 \
    WRAP void w_transposed4##S (const Matrix44<T>* a, Matrix44<T>* r) { *r = a->transposed (); }                 \
    WRAP void w_transpose2##S (const Matrix22<T>* a, Matrix22<T>* r) { Matrix22<T> t = *a; t.transpose (); *r = t; } \
    WRAP void w_transpose3##S (const Matrix33<T>* a, Matrix33<T>* r) { Matrix33<T> t = *a; t.transpose (); *r = t; } \
    WRAP void w_transpose4##S (const Matrix44<T>* a, Matrix44<T>* r) { Matrix44<T> t = *a; t.transpose (); *r = t; } \
    WRAP T w_trace2##S (const Matrix22<T>* a) { return a->trace (); }                                            \
    WRAP T w_trace3##S (const Matrix33<T>* a) { return a->trace (); }                                            \
    WRAP T w_trace4##S (const Matrix44<T>* a) { return a->trace (); }                                            \
    WRAP T w_det2##S (const Matrix22<T>* a) { return a->determinant (); }                                        \
    WRAP T w_det3##S (const Matrix33<T>* a) { return a->determinant (); }                                        \
    WRAP T w_det4##S (const Matrix44<T>* a) { return a->determinant (); }                                        \
    WRAP T w_minor3##S (const Matrix33<T>* a, int r, int c) { return a->minorOf (r, c); }                        \
    WRAP T w_minor4##S (const Matrix44<T>* a, int r, int c) { return a->minorOf (r, c); }                        \
    WRAP T w_fastminor3##S (const Matrix33<T>* a, int r0, int r1, int c0, int c1) { return a->fastMinor (r0, r1, c0, c1); } \
    WRAP T w_fastminor4##S (const Matrix44<T>* a, int r0, int r1, int r2, int c0, int c1, int c2) { return a->fastMinor (r0, r1, r2, c0, c1, c2); } \
    WRAP T w_detprod2##S (const Matrix22<T>* a, const Matrix22<T>* b) { return (*a * *b).determinant (); }       \
    WRAP T w_detprod3##S (const Matrix33<T>* a, const Matrix33<T>* b) { return (*a * *b).determinant (); }       \
    WRAP T w_detprod4##S (const Matrix44<T>* a, const Matrix44<T>* b) { return (*a * *b).determinant (); }       \
    WRAP T w_dettransp3##S (const Matrix33<T>* a) { return a->transposed ().determinant (); }                    \
    WRAP T w_dettransp4##S (const Matrix44<T>* a) { return a->transposed ().determinant (); }                    \
    WRAP T w_cofrow3##S (const Matrix33<T>* a, int r) { T s = 0; for (int c = 0; c < 3; c++) s += (((r + c) & 1) ? -1 : 1) * (*a)[r][c] * a->minorOf (r, c); return s; } \
    WRAP T w_cofcol3##S (const Matrix33<T>* a, int c) { T s = 0; for (int r = 0; r < 3; r++) s += (((r + c) & 1) ? -1 : 1) * (*a)[r][c] * a->minorOf (r, c); return s; } \
    WRAP T w_cofrow4##S (const Matrix44<T>* a, int r) { T s = 0; for (int c = 0; c < 4; c++) s += (((r + c) & 1) ? -1 : 1) * (*a)[r][c] * a->minorOf (r, c); return s; } \
    WRAP T w_cofcol4##S (const Matrix44<T>* a, int c) { T s = 0; for (int r = 0; r < 4; r++) s += (((r + c) & 1) ? -1 : 1) * (*a)[r][c] * a->minorOf (r, c); return s; }

// aliased operands: the right-hand side IS the object being assigned to
#define SELF(T, S)                                                                                               \
    WRAP void w_mmulself2##S (const Matrix22<T>* a, Matrix22<T>* r) { Matrix22<T> t = *a; t *= t; *r = t; }      \
    WRAP void w_mmulself3##S (const Matrix33<T>* a, Matrix33<T>* r) { Matrix33<T> t = *a; t *= t; *r = t; }      \
    WRAP void w_mmulself4##S (const Matrix44<T>* a, Matrix44<T>* r) { Matrix44<T> t = *a; t *= t; *r = t; }      \
    WRAP void w_mmulstatself4##S (const Matrix44<T>* a, Matrix44<T>* r) { Matrix44<T> t = *a; Matrix44<T>::multiply (t, t, t); *r = t; } \
    WRAP void w_qmulself##S (const Quat<T>* a, Quat<T>* r) { Quat<T> t = *a; t *= t; *r = t; }                   \
    WRAP void w_cross3self##S (const Vec3<T>* a, Vec3<T>* r) { Vec3<T> t = *a; t %= t; *r = t; }                 \
    WRAP void w_v3m33self_row##S (const Matrix33<T>* m, Vec3<T>* r) { Matrix33<T> t = *m; Vec3<T>* row = reinterpret_cast<Vec3<T>*> (t[1]); *row *= t; *r = *row; } \
    WRAP void w_v4m44self_row##S (const Matrix44<T>* m, Vec4<T>* r) { Matrix44<T> t = *m; Vec4<T>* row = reinterpret_cast<Vec4<T>*> (t[1]); *row *= t; *r = *row; }
INST (float, f)
INST (double, d)
SELF (float, f)
SELF (double, d)
