// C20 (continued): hand-written floating-point tasks of PyImathQuat.cpp and PyImathMatrix44.cpp (their Task classes live in the .cpp
// files, which are included here verbatim), and the scalar operation each one is supposed to apply per element.
#include <Python.h>
#include "verif_wrap.h"
#include <PyImathQuat.cpp>
using namespace PyImath;
typedef IMATH_NAMESPACE::Quatf Qf; typedef IMATH_NAMESPACE::V3f V3;
typedef FixedArray<Qf> QA; typedef FixedArray<V3> VA3;

WRAP void w_qtask_mul (const QA* a, const QA* b, QA* r, size_t s, size_t e) { W_TRY QuatArray_Mul<float> t (*a, *b, *r); t.execute (s, e); W_CATCH }
WRAP void w_qref_mul (const Qf* a, const Qf* b, Qf* r) { *r = *a * *b; }
WRAP void w_qtask_inverse (const QA* a, QA* r, size_t s, size_t e) { W_TRY QuatArray_Inverse<float> t (*r, *a); t.execute (s, e); W_CATCH }
WRAP void w_qref_inverse (const Qf* a, Qf* r) { *r = a->inverse (); }
WRAP void w_qtask_rotate (const QA* q, const VA3* v, VA3* r, size_t s, size_t e) { W_TRY QuatArray_RotateVector<float> t (*r, *v, *q); t.execute (s, e); W_CATCH }
WRAP void w_qref_rotate (const Qf* q, const V3* v, V3* r) { *r = q->rotateVector (*v); }
WRAP void w_qtask_rmulvec3array (const QA* q, const VA3* v, VA3* r, size_t s, size_t e) { W_TRY QuatArray_RmulVec3Array<float> t (*q, *v, *r); t.execute (s, e); W_CATCH }
WRAP void w_qref_rmulvec3 (const Qf* q, const V3* v, V3* r) { IMATH_NAMESPACE::M44f m = q->toMatrix44 (); *r = *v * m; }
