// C09: transform builders (float and double).
#include "verif_wrap.h"
#include <ImathMatrix.h>
#include <ImathMatrixAlgo.h>
#include <ImathShear.h>
using namespace IMATH_NAMESPACE;

#define INST(T, S)                                                                                                  \
    WRAP void w_m44_settranslation##S (Matrix44<T>* m, const Vec3<T>* t) { m->setTranslation (*t); }                \
    WRAP void w_m44_translate##S (Matrix44<T>* m, const Vec3<T>* t) { m->translate (*t); }                          \
    WRAP void w_m44_translation##S (const Matrix44<T>* m, Vec3<T>* t) { *t = m->translation (); }                   \
    WRAP void w_m44_setscale_u##S (Matrix44<T>* m, T s) { m->setScale (s); }                                        \
    WRAP void w_m44_setscale##S (Matrix44<T>* m, const Vec3<T>* s) { m->setScale (*s); }                            \
    WRAP void w_m44_scale##S (Matrix44<T>* m, const Vec3<T>* s) { m->scale (*s); }                                  \
    WRAP void w_m44_setshear3##S (Matrix44<T>* m, const Vec3<T>* h) { m->setShear (*h); }                           \
    WRAP void w_m44_setshear6##S (Matrix44<T>* m, const Shear6<T>* h) { m->setShear (*h); }                         \
    WRAP void w_m44_shear3##S (Matrix44<T>* m, const Vec3<T>* h) { m->shear (*h); }                                 \
    WRAP void w_m44_shear6##S (Matrix44<T>* m, const Shear6<T>* h) { m->shear (*h); }                               \
    WRAP void w_m44_seteuler##S (Matrix44<T>* m, const Vec3<T>* r) { m->setEulerAngles (*r); }                      \
    WRAP void w_m44_rotate##S (Matrix44<T>* m, const Vec3<T>* r) { m->rotate (*r); }                                \
    WRAP void w_m44_setaxisangle##S (Matrix44<T>* m, const Vec3<T>* a, T ang) { m->setAxisAngle (*a, ang); }        \
    WRAP void w_m33_setrotation##S (Matrix33<T>* m, T r) { m->setRotation (r); }                                    \
    WRAP void w_m33_rotate##S (Matrix33<T>* m, T r) { m->rotate (r); }                                              \
    WRAP void w_m33_setscale_u##S (Matrix33<T>* m, T s) { m->setScale (s); }                                        \
    WRAP void w_m33_setscale##S (Matrix33<T>* m, const Vec2<T>* s) { m->setScale (*s); }                            \
    WRAP void w_m33_scale##S (Matrix33<T>* m, const Vec2<T>* s) { m->scale (*s); }                                  \
    WRAP void w_m33_settranslation##S (Matrix33<T>* m, const Vec2<T>* t) { m->setTranslation (*t); }                \
    WRAP void w_m33_translate##S (Matrix33<T>* m, const Vec2<T>* t) { m->translate (*t); }                          \
    WRAP void w_m33_translation##S (const Matrix33<T>* m, Vec2<T>* t) { *t = m->translation (); }                   \
    WRAP void w_m33_setshear1##S (Matrix33<T>* m, T h) { m->setShear (h); }                                         \
    WRAP void w_m33_setshear2##S (Matrix33<T>* m, const Vec2<T>* h) { m->setShear (*h); }                           \
    WRAP void w_m33_shear1##S (Matrix33<T>* m, T h) { m->shear (h); }                                               \
    WRAP void w_m33_shear2##S (Matrix33<T>* m, const Vec2<T>* h) { m->shear (*h); }                                 \
    WRAP void w_m22_setrotation##S (Matrix22<T>* m, T r) { m->setRotation (r); }                                    \
    WRAP void w_m22_rotate##S (Matrix22<T>* m, T r) { m->rotate (r); }                                              \
    WRAP void w_m22_setscale_u##S (Matrix22<T>* m, T s) { m->setScale (s); }                                        \
    WRAP void w_m22_setscale##S (Matrix22<T>* m, const Vec2<T>* s) { m->setScale (*s); }                            \
    WRAP void w_m22_scale##S (Matrix22<T>* m, const Vec2<T>* s) { m->scale (*s); }                                  \
    WRAP void w_alignz##S (Matrix44<T>* m, const Vec3<T>* target, const Vec3<T>* up) { alignZAxisWithTargetDir (*m, *target, *up); } \
    WRAP void w_alignz_parallel##S (Matrix44<T>* m, const Vec3<T>* target, T lambda) { alignZAxisWithTargetDir (*m, *target, *target * lambda); } \
    WRAP void w_rotupdir_parallel##S (Matrix44<T>* m, const Vec3<T>* from, const Vec3<T>* to, T lambda) { *m = rotationMatrixWithUpDir (*from, *to, *to * lambda); } \
    WRAP void w_rotupdir##S (Matrix44<T>* m, const Vec3<T>* from, const Vec3<T>* to, const Vec3<T>* up) { *m = rotationMatrixWithUpDir (*from, *to, *up); } \
    WRAP void w_localframe##S (Matrix44<T>* m, const Vec3<T>* p, const Vec3<T>* xdir, const Vec3<T>* n) { *m = computeLocalFrame (*p, *xdir, *n); }

INST (float, f)
INST (double, d)
