// C19: FixedVArray (array of variable-length arrays): row views inherit read-only protection and select the right row.
#include <Python.h>
#include "verif_wrap.h"
#include <PyImathFixedVArray.cpp>
using namespace PyImath;
typedef FixedVArray<int> VI;
typedef FixedArray<int> IA;
// the row view returned by __getitem__(int): its data pointer, length, stride, writable flag
WRAP void w_varray_getitem (VI* v, Py_ssize_t i, long* out)
{ W_TRY IA row = v->getitem (i); out[0] = row.len (); out[1] = row.stride (); out[2] = row.writable (); out[3] = (long) (row.len () ? &row.unchecked_direct_index (0) : 0); out[4] = row.isMaskedReference (); W_CATCH }
WRAP long w_varray_len (const VI* v) { return v->len (); }
WRAP int  w_varray_writable (const VI* v) { return v->writable (); }
