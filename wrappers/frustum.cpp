// C16: Frustum / FrustumTest (float and double).
#include "verif_wrap.h"
#include <ImathFrustum.h>
#include <ImathFrustumTest.h>
using namespace IMATH_NAMESPACE;

#define INST(T, S)                                                                                                    \
    WRAP void w_fr_proj##S (const Frustum<T>* f, Matrix44<T>* m) { *m = f->projectionMatrix (); }                      \
    WRAP void w_fr_point_to_screen##S (const Frustum<T>* f, const Vec3<T>* p, Vec2<T>* s) { *s = f->projectPointToScreen (*p); } \
    WRAP void w_fr_screen_to_ray##S (const Frustum<T>* f, const Vec2<T>* s, Line3<T>* l) { *l = f->projectScreenToRay (*s); } \
    WRAP void w_fr_ray_roundtrip##S (const Frustum<T>* f, const Vec2<T>* s, T t, Vec2<T>* r)                           \
    { Line3<T> l = f->projectScreenToRay (*s); *r = f->projectPointToScreen (l (t)); }                                 \
    WRAP T w_fr_nz_to_depth##S (const Frustum<T>* f, T z) { return f->normalizedZToDepth (z); }                        \
    WRAP T w_fr_screen_radius##S (const Frustum<T>* f, const Vec3<T>* p, T r) { return f->screenRadius (*p, r); }      \
    WRAP T w_fr_world_radius##S (const Frustum<T>* f, const Vec3<T>* p, T r) { return f->worldRadius (*p, r); }        \
    WRAP T w_fr_radius_roundtrip##S (const Frustum<T>* f, const Vec3<T>* p, T r) { return f->worldRadius (*p, f->screenRadius (*p, r)); } \
    WRAP T w_fr_aspect##S (const Frustum<T>* f) { return f->aspect (); }                                               \
    WRAP void w_fr_window##S (const Frustum<T>* f, T l, T r, T t, T b, Frustum<T>* o) { *o = f->window (l, r, t, b); } \
    WRAP void w_fr_modify_near_far##S (Frustum<T>* f, T n, T fa) { f->modifyNearAndFar (n, fa); }                      \
    WRAP void w_fr_planes##S (const Frustum<T>* f, Plane3<T>* p) { f->planes (p); }                                    \
    WRAP void w_fr_planes_m##S (const Frustum<T>* f, const Matrix44<T>* m, Plane3<T>* p) { f->planes (p, *m); }        \
    WRAP int w_ft_visible_point##S (const Frustum<T>* f, const Matrix44<T>* cam, const Vec3<T>* p)                     \
    { FrustumTest<T> ft (*f, *cam); return ft.isVisible (*p); }                                                        \
    WRAP int w_ft_visible_sphere##S (const Frustum<T>* f, const Matrix44<T>* cam, const Sphere3<T>* s)                 \
    { FrustumTest<T> ft (*f, *cam); return ft.isVisible (*s); }                                                        \
    WRAP int w_ft_contains_sphere##S (const Frustum<T>* f, const Matrix44<T>* cam, const Sphere3<T>* s)                \
    { FrustumTest<T> ft (*f, *cam); return ft.completelyContains (*s); }                                               \
    WRAP int w_ft_visible_box##S (const Frustum<T>* f, const Matrix44<T>* cam, const Box<Vec3<T>>* b)                  \
    { FrustumTest<T> ft (*f, *cam); return ft.isVisible (*b); }                                                        \
    WRAP int w_ft_contains_box##S (const Frustum<T>* f, const Matrix44<T>* cam, const Box<Vec3<T>>* b)                 \
    { FrustumTest<T> ft (*f, *cam); return ft.completelyContains (*b); }

INST (float, f)
INST (double, d)
