// C12: matrix factorisation wrappers (float and double).
#include "verif_wrap.h"
#include <ImathMatrix.h>
#include <ImathMatrixAlgo.h>
using namespace IMATH_NAMESPACE;

#define INST(T, S)                                                                                                   \
    WRAP void w_sans33##S (const Matrix33<T>* m, int exc, Matrix33<T>* r) { W_TRY *r = sansScaling (*m, exc != 0); W_CATCH } \
    WRAP int  w_remove33##S (const Matrix33<T>* m, int exc, Matrix33<T>* r) { int ok = 0; W_TRY Matrix33<T> t = *m; ok = removeScaling (t, exc != 0); *r = t; W_CATCH return ok; } \
    WRAP void w_sans44##S (const Matrix44<T>* m, int exc, Matrix44<T>* r) { W_TRY *r = sansScaling (*m, exc != 0); W_CATCH } \
    WRAP int  w_remove44##S (const Matrix44<T>* m, int exc, Matrix44<T>* r) { int ok = 0; W_TRY Matrix44<T> t = *m; ok = removeScaling (t, exc != 0); *r = t; W_CATCH return ok; } \
    WRAP void w_sansSS33##S (const Matrix33<T>* m, int exc, Matrix33<T>* r) { W_TRY *r = sansScalingAndShear (*m, exc != 0); W_CATCH } \
    WRAP void w_sansSS44##S (const Matrix44<T>* m, int exc, Matrix44<T>* r) { W_TRY *r = sansScalingAndShear (*m, exc != 0); W_CATCH } \
    WRAP int  w_removeSS33##S (const Matrix33<T>* m, int exc, Matrix33<T>* r) { int ok = 0; W_TRY Matrix33<T> t = *m; ok = removeScalingAndShear (t, exc != 0); *r = t; W_CATCH return ok; } \
    WRAP int  w_removeSS44##S (const Matrix44<T>* m, int exc, Matrix44<T>* r) { int ok = 0; W_TRY Matrix44<T> t = *m; ok = removeScalingAndShear (t, exc != 0); *r = t; W_CATCH return ok; } \
    WRAP int  w_extract_remove33##S (const Matrix33<T>* m, int exc, Matrix33<T>* r, Vec2<T>* scl, T* shr)             \
    { int ok = 0; W_TRY Matrix33<T> t = *m; ok = extractAndRemoveScalingAndShear (t, *scl, *shr, exc != 0); *r = t; W_CATCH return ok; } \
    WRAP int  w_extract_remove44##S (const Matrix44<T>* m, int exc, Matrix44<T>* r, Vec3<T>* scl, Vec3<T>* shr)       \
    { int ok = 0; W_TRY Matrix44<T> t = *m; ok = extractAndRemoveScalingAndShear (t, *scl, *shr, exc != 0); *r = t; W_CATCH return ok; } \
    WRAP int  w_checkzero3##S (T scl, const Vec3<T>* row, int exc) { int ok = 0; W_TRY ok = checkForZeroScaleInRow (scl, *row, exc != 0); W_CATCH return ok; } \
    WRAP int  w_checkzero2##S (T scl, const Vec2<T>* row, int exc) { int ok = 0; W_TRY ok = checkForZeroScaleInRow (scl, *row, exc != 0); W_CATCH return ok; }

#define SHRT(T, S)                                                                                                   \
    WRAP int w_shrt33##S (const Matrix33<T>* m, T* out) { Vec2<T> s, t; T h, r; int ok = extractSHRT (*m, s, h, r, t, false); out[0] = s.x; out[1] = s.y; out[2] = h; out[3] = r; out[4] = t.x; out[5] = t.y; return ok; } \
    WRAP int w_shrt44##S (const Matrix44<T>* m, T* out) { Vec3<T> s, h, r, t; int ok = extractSHRT (*m, s, h, r, t, false); for (int i = 0; i < 3; i++) { out[i] = s[i]; out[3 + i] = h[i]; out[6 + i] = r[i]; out[9 + i] = t[i]; } return ok; }
INST (float, f)
INST (double, d)
SHRT (float, f)
SHRT (double, d)
