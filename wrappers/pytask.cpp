// C20: the execute(start,end) bodies of PyImath's vectorised tasks.  Each wrapper builds the REAL task object from
// FixedArray arguments exactly as VectorizedFunctionN::apply does (accessor kind per argument) and runs one sub-range.
#include <Python.h>
#include "verif_wrap.h"
#include <PyImathFixedArray.h>
#include <PyImathAutovectorize.h>
#include <PyImathOperators.h>
#include <PyImathTask.h>
#include <ImathVec.h>
#include <ImathBox.h>
#include <ImathMatrix.h>
using namespace PyImath;
using namespace PyImath::detail;
typedef FixedArray<int> IA;
typedef IA::WritableDirectAccess WD; typedef IA::WritableMaskedAccess WM;
typedef IA::ReadOnlyDirectAccess RD; typedef IA::ReadOnlyMaskedAccess RM;
typedef SimpleNonArrayWrapper<int>::ReadOnlyDirectAccess SC;      // scalar argument broadcast to every element

// --- arity 1:  r[i] = -a[i]
#define OP1(NAME, RA, AA)  WRAP void w_neg_##NAME (IA* r, const IA* a, size_t s, size_t e) \
    { W_TRY RA ra (*r); AA aa (*a); VectorizedOperation1<op_neg<int, int>, RA, AA> t (ra, aa); t.execute (s, e); W_CATCH }
OP1 (DD, WD, RD) OP1 (DM, WD, RM) OP1 (MD, WM, RD) OP1 (MM, WM, RM)
// --- arity 2:  r[i] = a[i] + b[i]
#define OP2(NAME, RA, AA, BA)  WRAP void w_add_##NAME (IA* r, const IA* a, const IA* b, size_t s, size_t e) \
    { W_TRY RA ra (*r); AA aa (*a); BA ba (*b); VectorizedOperation2<op_add<int, int, int>, RA, AA, BA> t (ra, aa, ba); t.execute (s, e); W_CATCH }
OP2 (DDD, WD, RD, RD) OP2 (DDM, WD, RD, RM) OP2 (DMD, WD, RM, RD) OP2 (DMM, WD, RM, RM) OP2 (MDD, WM, RD, RD) OP2 (MMM, WM, RM, RM)
WRAP void w_add_DDS (IA* r, const IA* a, const int* b, size_t s, size_t e)
{ W_TRY WD ra (*r); RD aa (*a); SC ba (*b); VectorizedOperation2<op_add<int, int, int>, WD, RD, SC> t (ra, aa, ba); t.execute (s, e); W_CATCH }
WRAP void w_add_DMS (IA* r, const IA* a, const int* b, size_t s, size_t e)
{ W_TRY WD ra (*r); RM aa (*a); SC ba (*b); VectorizedOperation2<op_add<int, int, int>, WD, RM, SC> t (ra, aa, ba); t.execute (s, e); W_CATCH }
// --- arity 3:  r[i] = a[i] < lo[i] ? lo[i] : (a[i] > hi[i] ? hi[i] : a[i])
struct clamp3 { static inline int apply (const int& a, const int& l, const int& h) { return a < l ? l : (a > h ? h : a); } };
#define OP3(NAME, RA, AA, BA, CA)  WRAP void w_clamp_##NAME (IA* r, const IA* a, const IA* b, const IA* c, size_t s, size_t e) \
    { W_TRY RA ra (*r); AA aa (*a); BA ba (*b); CA ca (*c); VectorizedOperation3<clamp3, RA, AA, BA, CA> t (ra, aa, ba, ca); t.execute (s, e); W_CATCH }
OP3 (DDDD, WD, RD, RD, RD) OP3 (DMDM, WD, RM, RD, RM)
// --- in-place (void) operations:  a[i] += b[i]
#define VOP1(NAME, AA, BA)  WRAP void w_iadd_##NAME (IA* a, const IA* b, size_t s, size_t e) \
    { W_TRY AA aa (*a); BA ba (*b); VectorizedVoidOperation1<op_iadd<int, int>, AA, BA> t (aa, ba); t.execute (s, e); W_CATCH }
VOP1 (DD, WD, RD) VOP1 (DM, WD, RM) VOP1 (MD, WM, RD) VOP1 (MM, WM, RM)
WRAP void w_iadd_DS (IA* a, const int* b, size_t s, size_t e)
{ W_TRY WD aa (*a); SC ba (*b); VectorizedVoidOperation1<op_iadd<int, int>, WD, SC> t (aa, ba); t.execute (s, e); W_CATCH }
WRAP void w_iadd_MS (IA* a, const int* b, size_t s, size_t e)
{ W_TRY WM aa (*a); SC ba (*b); VectorizedVoidOperation1<op_iadd<int, int>, WM, SC> t (aa, ba); t.execute (s, e); W_CATCH }
// masked in-place with an UNMASKED-length argument: a is a masked reference, b is indexed by a's raw index
WRAP void w_iadd_masked_raw (IA* a, const IA* b, size_t s, size_t e)
{ W_TRY WM aa (*a); RD ba (*b); VectorizedMaskedVoidOperation1<op_iadd<int, int>, WM, RD, IA&> t (aa, ba, *a); t.execute (s, e); W_CATCH }
struct negate0 { static inline void apply (int& a) { a = -a; } };
WRAP void w_ineg_D (IA* a, size_t s, size_t e) { W_TRY WD aa (*a); VectorizedVoidOperation0<negate0, WD> t (aa); t.execute (s, e); W_CATCH }
WRAP void w_ineg_M (IA* a, size_t s, size_t e) { W_TRY WM aa (*a); VectorizedVoidOperation0<negate0, WM> t (aa); t.execute (s, e); W_CATCH }
struct addmul2 { static inline void apply (int& a, const int& b, const int& c) { a += b - c; } };
WRAP void w_iaddmul_DDM (IA* a, const IA* b, const IA* c, size_t s, size_t e)
{ W_TRY WD aa (*a); RD ba (*b); RM ca (*c); VectorizedVoidOperation2<addmul2, WD, RD, RM> t (aa, ba, ca); t.execute (s, e); W_CATCH }

// --- length checks that guard every vectorised call
WRAP size_t w_measure2 (const IA* a, const IA* b) { size_t r = 0; W_TRY r = measure_arguments (*a, *b); W_CATCH return r; }
WRAP size_t w_measure3 (const IA* a, const IA* b, const IA* c) { size_t r = 0; W_TRY r = measure_arguments (*a, *b, *c); W_CATCH return r; }
WRAP size_t w_measure2s (const IA* a, int b) { size_t r = 0; W_TRY r = measure_arguments (*a, b); W_CATCH return r; }

// --- a hand-written task: Box<V3i>.intersects(points) (text of PyImathBox.cpp's IntersectsTask, which lives in a .cpp)
#include <PyImathBox.cpp>
typedef FixedArray<IMATH_NAMESPACE::V3i> VA;
WRAP void w_box_intersects_task (IMATH_NAMESPACE::Box3i* box, const VA* pts, IA* res, size_t s, size_t e)
{ W_TRY IntersectsTask<IMATH_NAMESPACE::V3i> t (*box, *pts, *res); t.execute (s, e); W_CATCH }

// --- ExtendByTask (Box.extendBy(array)): one execute() call on worker slot tid of the per-worker box vector
typedef std::vector<IMATH_NAMESPACE::Box3i> BV;
WRAP void w_box_extend_task (BV* boxes, const VA* pts, size_t s, size_t e, int tid)
{ W_TRY ExtendByTask<IMATH_NAMESPACE::V3i> t (*boxes, *pts); t.execute (s, e, tid); W_CATCH }
