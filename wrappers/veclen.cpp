// C08 (and the checked/unchecked pairs of C07): length() and the normalize family, Vec2/3/4, float and double.
#include "verif_wrap.h"
#include <ImathVec.h>
using namespace IMATH_NAMESPACE;

#define INST(T, S, N)                                                                                              \
    WRAP T w_len##N##S (const Vec##N<T>* v) { return v->length (); }                                               \
    WRAP T w_len2_##N##S (const Vec##N<T>* v) { return v->length2 (); }                                            \
    WRAP T w_dotself##N##S (const Vec##N<T>* v) { return v->dot (*v); }                                            \
    WRAP void w_normalize##N##S (const Vec##N<T>* v, Vec##N<T>* r) { Vec##N<T> t = *v; t.normalize (); *r = t; }   \
    WRAP void w_normalizeExc##N##S (const Vec##N<T>* v, Vec##N<T>* r) { W_TRY Vec##N<T> t = *v; t.normalizeExc (); *r = t; W_CATCH } \
    WRAP void w_normalizeNonNull##N##S (const Vec##N<T>* v, Vec##N<T>* r) { Vec##N<T> t = *v; t.normalizeNonNull (); *r = t; } \
    WRAP void w_normalized##N##S (const Vec##N<T>* v, Vec##N<T>* r) { *r = v->normalized (); }                     \
    WRAP void w_normalizedExc##N##S (const Vec##N<T>* v, Vec##N<T>* r) { W_TRY *r = v->normalizedExc (); W_CATCH } \
    WRAP void w_normalizedNonNull##N##S (const Vec##N<T>* v, Vec##N<T>* r) { *r = v->normalizedNonNull (); }
INST (float, f, 2) INST (float, f, 3) INST (float, f, 4)
INST (double, d, 2) INST (double, d, 3) INST (double, d, 4)
