// C18: rand48 family, Rand32, Rand48, sphere samplers.  Linked with the real ImathRandom.cpp.
#include "verif_wrap.h"
#include <ImathRandom.h>
#include <ImathVec.h>
#include <string.h>
using namespace IMATH_NAMESPACE;

WRAP long   w_nrand48 (unsigned short* st) { return IMATH_NAMESPACE::nrand48 (st); }
WRAP double w_erand48 (unsigned short* st) { return IMATH_NAMESPACE::erand48 (st); }
// the static-state entry points: seed, then draw (the static array is private to ImathRandom.cpp)
WRAP void w_srand_lrand2 (long seed, long* out) { IMATH_NAMESPACE::srand48 (seed); out[0] = IMATH_NAMESPACE::lrand48 (); out[1] = IMATH_NAMESPACE::lrand48 (); }
WRAP void w_srand_drand_lrand (long seed, double* d, long* l) { IMATH_NAMESPACE::srand48 (seed); *d = IMATH_NAMESPACE::drand48 (); *l = IMATH_NAMESPACE::lrand48 (); }

// Rand32: the object is exactly its state word
static_assert (sizeof (Rand32) == sizeof (unsigned long), "Rand32 layout");
WRAP unsigned long w_r32_init (unsigned long seed) { Rand32 r (seed); unsigned long s; memcpy (&s, &r, sizeof s); return s; }
WRAP unsigned long w_r32_reinit (unsigned long old, unsigned long seed) { Rand32* r = reinterpret_cast<Rand32*> (&old); r->init (seed); return old; }
WRAP int           w_r32_nextb (unsigned long* st) { return reinterpret_cast<Rand32*> (st)->nextb (); }
WRAP unsigned long w_r32_nexti (unsigned long* st) { return reinterpret_cast<Rand32*> (st)->nexti (); }
WRAP float         w_r32_nextf (unsigned long* st) { return reinterpret_cast<Rand32*> (st)->nextf (); }
WRAP float         w_r32_nextf_range (unsigned long* st, float a, float b) { return reinterpret_cast<Rand32*> (st)->nextf (a, b); }

static_assert (sizeof (Rand48) == 3 * sizeof (unsigned short), "Rand48 layout");
WRAP void   w_r48_init (unsigned long seed, unsigned short* st) { Rand48 r (seed); memcpy (st, &r, 6); }
WRAP int    w_r48_nextb (unsigned short* st) { return reinterpret_cast<Rand48*> (st)->nextb (); }
WRAP long   w_r48_nexti (unsigned short* st) { return reinterpret_cast<Rand48*> (st)->nexti (); }
WRAP double w_r48_nextf (unsigned short* st) { return reinterpret_cast<Rand48*> (st)->nextf (); }
WRAP double w_r48_nextf_range (unsigned short* st, double a, double b) { return reinterpret_cast<Rand48*> (st)->nextf (a, b); }

WRAP void w_solid3f_r48 (unsigned short* st, V3f* out) { *out = solidSphereRand<V3f> (*reinterpret_cast<Rand48*> (st)); }
WRAP void w_solid2f_r32 (unsigned long* st, V2f* out) { *out = solidSphereRand<V2f> (*reinterpret_cast<Rand32*> (st)); }
WRAP void w_hollow3f_r48 (unsigned short* st, V3f* out) { *out = hollowSphereRand<V3f> (*reinterpret_cast<Rand48*> (st)); }
WRAP void w_hollow2f_r32 (unsigned long* st, V2f* out) { *out = hollowSphereRand<V2f> (*reinterpret_cast<Rand32*> (st)); }
