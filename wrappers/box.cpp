// C13: Box / Interval as point sets (integer and float element types; generic template and the Vec2/Vec3 specialisations).
#include "verif_wrap.h"
#include <new>
#include <ImathBox.h>
#include <ImathInterval.h>
#include <ImathVec.h>
using namespace IMATH_NAMESPACE;

// a vector type that is NOT Vec2<T>/Vec3<T>, so that Box<> selects the generic (loop) template
template <class T> struct GVec3 : public Vec3<T>
{
    GVec3 () : Vec3<T> () {}
    GVec3 (T a) : Vec3<T> (a) {}
    GVec3 (const Vec3<T>& v) : Vec3<T> (v) {}
};
template <class T> struct GVec2 : public Vec2<T>
{
    GVec2 () : Vec2<T> () {}
    GVec2 (T a) : Vec2<T> (a) {}
    GVec2 (const Vec2<T>& v) : Vec2<T> (v) {}
};

#define BOXW(P, BT, VT, E)                                                                                     \
    WRAP void w_##P##_ctor (E* b) { new (b) BT (); }                                                           \
    WRAP void w_##P##_make_empty (E* b) { reinterpret_cast<BT*> (b)->makeEmpty (); }                           \
    WRAP void w_##P##_make_infinite (E* b) { reinterpret_cast<BT*> (b)->makeInfinite (); }                     \
    WRAP void w_##P##_extend_pt (E* b, const E* p) { reinterpret_cast<BT*> (b)->extendBy (*reinterpret_cast<const VT*> (p)); } \
    WRAP void w_##P##_extend_box (E* b, const E* o) { reinterpret_cast<BT*> (b)->extendBy (*reinterpret_cast<const BT*> (o)); } \
    WRAP int w_##P##_intersects_pt (const E* b, const E* p) { return reinterpret_cast<const BT*> (b)->intersects (*reinterpret_cast<const VT*> (p)); } \
    WRAP int w_##P##_intersects_box (const E* b, const E* o) { return reinterpret_cast<const BT*> (b)->intersects (*reinterpret_cast<const BT*> (o)); } \
    WRAP int w_##P##_is_empty (const E* b) { return reinterpret_cast<const BT*> (b)->isEmpty (); }             \
    WRAP int w_##P##_has_volume (const E* b) { return reinterpret_cast<const BT*> (b)->hasVolume (); }         \
    WRAP int w_##P##_is_infinite (const E* b) { return reinterpret_cast<const BT*> (b)->isInfinite (); }       \
    WRAP void w_##P##_size (const E* b, E* r) { *reinterpret_cast<VT*> (r) = reinterpret_cast<const BT*> (b)->size (); } \
    WRAP void w_##P##_center (const E* b, E* r) { *reinterpret_cast<VT*> (r) = reinterpret_cast<const BT*> (b)->center (); } \
    WRAP unsigned w_##P##_major_axis (const E* b) { return reinterpret_cast<const BT*> (b)->majorAxis (); }

BOXW (b3i, Box<Vec3<int>>, Vec3<int>, int)
BOXW (b2i, Box<Vec2<int>>, Vec2<int>, int)
BOXW (b4i, Box<Vec4<int>>, Vec4<int>, int)
BOXW (g3i, Box<GVec3<int>>, GVec3<int>, int)
BOXW (g2i, Box<GVec2<int>>, GVec2<int>, int)
BOXW (b3s, Box<Vec3<short>>, Vec3<short>, short)
BOXW (b3f, Box<Vec3<float>>, Vec3<float>, float)
BOXW (b2f, Box<Vec2<float>>, Vec2<float>, float)
BOXW (g3f, Box<GVec3<float>>, GVec3<float>, float)

#define IVW(P, E)                                                                                              \
    WRAP void w_##P##_ctor (E* b) { new (b) Interval<E> (); }                                                  \
    WRAP void w_##P##_make_empty (E* b) { reinterpret_cast<Interval<E>*> (b)->makeEmpty (); }                  \
    WRAP void w_##P##_make_infinite (E* b) { reinterpret_cast<Interval<E>*> (b)->makeInfinite (); }            \
    WRAP void w_##P##_extend_pt (E* b, const E* p) { reinterpret_cast<Interval<E>*> (b)->extendBy (*p); }      \
    WRAP void w_##P##_extend_box (E* b, const E* o) { reinterpret_cast<Interval<E>*> (b)->extendBy (*reinterpret_cast<const Interval<E>*> (o)); } \
    WRAP int w_##P##_intersects_pt (const E* b, const E* p) { return reinterpret_cast<const Interval<E>*> (b)->intersects (*p); } \
    WRAP int w_##P##_intersects_box (const E* b, const E* o) { return reinterpret_cast<const Interval<E>*> (b)->intersects (*reinterpret_cast<const Interval<E>*> (o)); } \
    WRAP int w_##P##_is_empty (const E* b) { return reinterpret_cast<const Interval<E>*> (b)->isEmpty (); }    \
    WRAP int w_##P##_has_volume (const E* b) { return reinterpret_cast<const Interval<E>*> (b)->hasVolume (); } \
    WRAP int w_##P##_is_infinite (const E* b) { return reinterpret_cast<const Interval<E>*> (b)->isInfinite (); } \
    WRAP void w_##P##_size (const E* b, E* r) { *r = reinterpret_cast<const Interval<E>*> (b)->size (); }      \
    WRAP void w_##P##_center (const E* b, E* r) { *r = reinterpret_cast<const Interval<E>*> (b)->center (); }  \
    WRAP unsigned w_##P##_major_axis (const E* b) { return 0; }
IVW (ivi, int)
IVW (ivf, float)
