#!/bin/bash
# usage: seedconfirm.sh <ID>   -- confirms a candidate seeded change in /tmp/wt_<ID> with deliverables in /tmp/out_<ID>
ID=$1; WT=/tmp/wt_$ID; OUT=/tmp/out_$ID
set -u
cd $WT || exit 9
git -C $WT diff > /tmp/seed_$ID.diff
if ! diff -q <(git -C $WT diff) $OUT/patch.diff >/dev/null; then echo "NOTE: worktree diff differs from patch.diff"; fi
git -C $WT diff --stat | tail -3
[ -d $WT/_b ] || cmake -S $WT -B $WT/_b -DBUILD_TESTING=ON -DCMAKE_BUILD_TYPE=Release >/dev/null 2>&1
cmake --build $WT/_b -j6 > /tmp/seed_${ID}_build.log 2>&1 || { echo BUILD-FAILED; tail -20 /tmp/seed_${ID}_build.log; exit 1; }
ctest --test-dir $WT/_b -j6 2>&1 | tail -3
bash $OUT/run_demo.sh $WT $WT/_b > /tmp/seed_${ID}_demo_changed.log 2>&1; echo "demo changed exit=$?"
bash $OUT/run_demo.sh /repo /repo/_build > /tmp/seed_${ID}_demo_orig.log 2>&1; echo "demo orig exit=$?"
tail -3 /tmp/seed_${ID}_demo_changed.log
